use crate::engine::Property;

pub mod c14;

pub fn all() -> Vec<Box<dyn Property>> {
    vec![Box::new(c14::C14)]
}

pub fn by_id(id: &str) -> Option<Box<dyn Property>> {
    all().into_iter().find(|p| p.id() == id)
}
