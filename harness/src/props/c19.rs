//! C19 — value equality, hashing and ordering are mutually coherent.
//!
//! Triples of host-constructed values (distinct objects with equal content, reordered / prefix /
//! deep-mutated tables, numeric boundary values, mixed kinds). Oracle: the algebraic laws of the
//! property, each on the domain the statement gives it, plus a numeric model for `<` / `<=`.

use crate::choice::{fnv64, Choices};
use crate::engine::{CaseOut, Failure, Property, Tier, Verdict};
use crate::mval::*;
use cao_lang::prelude::*;
use serde_json::{json, Value as J};
use std::collections::hash_map::DefaultHasher;
use std::hash::{Hash, Hasher};

pub struct C19;

fn derive(c: &mut Choices, g: &ValGen, a: &MV) -> MV {
    match c.weighted(&[5, 6, 3, 3, 3, 3]) {
        0 => g.gen(c, 0),
        1 => a.clone(), // equal content, distinct objects after materialisation
        2 => match a {
            // same entries, rotated order
            MV::Table(t) if t.len() >= 2 => {
                let mut t = t.clone();
                let k = 1 + c.draw(t.len() - 1);
                t.rotate_left(k);
                MV::Table(t)
            }
            MV::Int(i) => MV::Real(*i as f64),
            MV::Real(r) if r.is_finite() && r.abs() < 9.0e18 => MV::Int(*r as i64),
            MV::Str(s) => MV::Int(s.len() as i64),
            other => other.clone(),
        },
        3 => match a {
            // prefix table / shorter string
            MV::Table(t) if !t.is_empty() => MV::Table(t[..t.len() - 1].to_vec()),
            MV::Str(s) if !s.is_empty() => {
                let mut s = s.clone();
                s.pop();
                MV::Str(s)
            }
            MV::Int(i) => MV::Int(i.wrapping_add(1)),
            MV::Real(r) => MV::Real(r + 1.0),
            other => other.clone(),
        },
        4 => match a {
            // differs deep inside
            MV::Table(t) if !t.is_empty() => {
                let mut t = t.clone();
                let i = c.draw(t.len());
                t[i].1 = match &t[i].1 {
                    MV::Table(inner) => {
                        let mut inner = inner.clone();
                        let fresh = (0..).map(|i| MV::Int(991 + i)).find(|k| !inner.iter().any(|(ek, _)| ek.model_eq(k))).unwrap();
                        inner.push((fresh, MV::Int(1)));
                        MV::Table(inner)
                    }
                    MV::Int(x) => MV::Int(x.wrapping_add(1)),
                    _ => MV::Int(5),
                };
                MV::Table(t)
            }
            // same length, different text
            MV::Str(s) if !s.is_empty() => MV::Str("z".repeat(s.len())),
            other => other.clone(),
        },
        _ => match a {
            MV::Real(r) if *r == 0.0 => MV::Real(-*r),
            MV::Table(t) => MV::Int(t.len() as i64),
            MV::Nil => MV::Int(0),
            MV::Int(0) => MV::Nil,
            other => other.clone(),
        },
    }
}

fn decode(bytes: &[u8]) -> (MV, MV, MV) {
    let mut c = Choices::new(bytes);
    let special = c.chance(40);
    let g = ValGen { allow_nan: special, allow_func: special, max_depth: 3, max_entries: 5 };
    let a = g.gen(&mut c, 0);
    let b = derive(&mut c, &g, &a);
    let cc = if c.bool() { derive(&mut c, &g, &b) } else { derive(&mut c, &g, &a) };
    (a, b, cc)
}

fn std_hash(v: &Value) -> u64 {
    let mut h = DefaultHasher::new();
    v.hash(&mut h);
    h.finish()
}

/// numeric view the statement gives for order comparisons against a number
fn num_view(m: &MV) -> Option<Num> {
    match m {
        MV::Nil => Some(Num::I(0)),
        MV::Int(i) => Some(Num::I(*i)),
        MV::Real(r) => Some(Num::R(*r)),
        MV::Str(_) | MV::Table(_) => Some(Num::I(m.len() as i64)),
        MV::Func(..) => None,
    }
}

#[derive(Clone, Copy, Debug)]
enum Num {
    I(i64),
    R(f64),
}

const EXACT: f64 = 9007199254740992.0; // 2^53

/// Some(expected a<b) when the statement defines it; also says whether the pair is in the lossy
/// int/real region (|int| > 2^53 against a real) where the result is only observed
fn model_less(a: &MV, b: &MV) -> (Option<bool>, bool) {
    let a_num = matches!(a, MV::Int(_) | MV::Real(_));
    let b_num = matches!(b, MV::Int(_) | MV::Real(_));
    if a.has_nan() || b.has_nan() {
        return (None, false);
    }
    match (a, b) {
        (MV::Str(x), MV::Str(y)) => return (if x.len() != y.len() { Some(x.len() < y.len()) } else { Some(false) }, false),
        (MV::Table(x), MV::Table(y)) => return (if x.len() != y.len() { Some(x.len() < y.len()) } else { Some(false) }, false),
        _ => {}
    }
    if !(a_num || b_num) {
        return (None, false); // nil/nil, nil/str, str/table, functions: not fixed by the statement
    }
    let (Some(x), Some(y)) = (num_view(a), num_view(b)) else { return (None, false) };
    match (x, y) {
        (Num::I(x), Num::I(y)) => (Some(x < y), false),
        (Num::R(x), Num::R(y)) => (Some(x < y), false),
        (Num::I(i), Num::R(r)) => {
            let lossy = (i as f64).abs() > EXACT;
            (Some((i as f64) < r), lossy)
        }
        (Num::R(r), Num::I(i)) => {
            let lossy = (i as f64).abs() > EXACT;
            (Some(r < (i as f64)), lossy)
        }
    }
}

fn law_domain(m: &MV) -> bool {
    // nil, integers, non-NaN reals, strings, acyclic tables of those
    !m.has_nan() && !m.has_func()
}

struct Ctx {
    fail: Option<Failure>,
    labels: Vec<String>,
}

/// like `materialize`, but every table gets 9 extra rows appended and popped again after its
/// own rows (its hash part grows at least once): same rows in the same order, other history
fn materialize_churned(vm: &mut Vm<()>, v: &MV) -> Result<Value, ExecutionErrorPayload> {
    Ok(match v {
        MV::Table(entries) => {
            let mut g = vm.init_table()?;
            for (k, val) in entries {
                let k = materialize_churned(vm, k)?;
                let val = materialize_churned(vm, val)?;
                g.as_table_mut().unwrap().insert(k, val)?;
            }
            for i in 0..9 {
                g.as_table_mut().unwrap().append(Value::Integer(i))?;
            }
            for _ in 0..9 {
                g.as_table_mut().unwrap().pop()?;
            }
            Value::Object(g.into_inner())
        }
        other => materialize(vm, other)?,
    })
}

fn check(vm: &mut Vm<()>, ms: [&MV; 3]) -> Ctx {
    let mut cx = Ctx { fail: None, labels: vec![] };
    let mut vals = vec![];
    for m in ms {
        match materialize(vm, m) {
            Ok(v) => vals.push(v),
            Err(e) => {
                cx.fail = Some(Failure::new("materialize", "c19:materialize", format!("{:?}", e)));
                return cx;
            }
        }
    }
    // a second materialisation of `a`: distinct objects, equal content
    let a2 = materialize(vm, ms[0]).unwrap();
    // a third one with another build history: every table (at any depth) additionally received
    // 9 rows that were popped again, so its storage grew - same rows, same order
    let a3 = materialize_churned(vm, ms[0]).unwrap();
    macro_rules! fail {
        ($clause:expr, $($arg:tt)*) => {{
            cx.fail = Some(Failure::new($clause, &format!("c19:{}", $clause), format!($($arg)*)));
            return cx;
        }};
    }
    if law_domain(ms[0]) && matches!(ms[0], MV::Table(_)) {
        cx.labels.push("equal_tables_other_build_history".into());
        if vals[0] != a3 || a3 != vals[0] {
            fail!("eq_by_content", "{} built directly and built with 9 rows appended and popped again are not equal", ms[0].to_json());
        }
        if !ms[0].has_zero_real() && std_hash(&vals[0]) != std_hash(&a3) {
            fail!("eq_implies_hash", "{} built directly and built with 9 rows appended and popped again are equal but hash differently", ms[0].to_json());
        }
        if vals[0] < a3 || a3 < vals[0] || !(vals[0] <= a3) {
            fail!("order_consistent_with_eq", "{} built directly and built with 9 rows appended and popped again are equal but ordered", ms[0].to_json());
        }
    }
    // totality of hashing / truthiness / comparison on every value (incl. functions)
    for (m, v) in ms.iter().zip(vals.iter()) {
        let _ = std_hash(v);
        let _ = v.partial_cmp(v);
        if v.as_bool() != m.truthy() {
            fail!("truthiness", "as_bool({}) = {} expected {}", m.to_json(), v.as_bool(), m.truthy());
        }
    }
    // reflexivity (with a distinct object of equal content too)
    if law_domain(ms[0]) {
        if vals[0] != vals[0] {
            fail!("eq_reflexive", "{} != itself", ms[0].to_json());
        }
        if vals[0] != a2 || a2 != vals[0] {
            fail!("eq_by_content", "two objects built from {} are not equal", ms[0].to_json());
        }
        if matches!(ms[0], MV::Str(_) | MV::Table(_)) {
            cx.labels.push("distinct_objects_equal_content".into());
        }
        if !ms[0].has_zero_real() && std_hash(&vals[0]) != std_hash(&a2) {
            fail!("eq_implies_hash", "equal-content copies of {} hash differently", ms[0].to_json());
        }
    } else if ms[0].has_func() && !matches!(ms[0], MV::Table(_)) {
        cx.labels.push("function_value".into());
    }
    for i in 0..3 {
        for j in 0..3 {
            let (ma, mb) = (ms[i], ms[j]);
            let (va, vb) = (vals[i], vals[j]);
            let eq = va == vb;
            let lt = va < vb;
            let gt = vb < va;
            let le = va <= vb;
            if eq != (vb == va) {
                fail!("eq_symmetric", "{} == {} is {} but the reverse is {}", ma.to_json(), mb.to_json(), eq, vb == va);
            }
            if (va != vb) == eq {
                fail!("ne_is_not_eq", "!= and == agree on {} , {}", ma.to_json(), mb.to_json());
            }
            if law_domain(ma) && law_domain(mb) {
                // agreement with content equality, except for the unordered-vs-ordered table question
                let me = ma.model_eq(mb);
                let reordered = !me && contains_reordered(ma, mb);
                if !reordered && eq != me {
                    fail!("eq_by_content", "{} == {} is {} but content equality says {}", ma.to_json(), mb.to_json(), eq, me);
                }
                if eq && !(ma.has_zero_real() || mb.has_zero_real()) {
                    if std_hash(&va) != std_hash(&vb) {
                        fail!("eq_implies_hash", "{} == {} but hashes differ", ma.to_json(), mb.to_json());
                    }
                    // behavioural: usable as the same table key
                    let mut t = vm.init_table().unwrap();
                    let tt = t.as_table_mut().unwrap();
                    tt.insert(va, Value::Integer(77)).unwrap();
                    let got = tt.get(&vb).copied();
                    if !matches!(got, Some(Value::Integer(77))) {
                        fail!("equal_keys_alias", "t[{}]=77 then t[{}] reads {:?}", ma.to_json(), mb.to_json(), got.map(MV::from_value));
                    }
                    if tt.len() != 1 {
                        fail!("equal_keys_alias", "len {} after one insert", tt.len());
                    }
                }
                if eq && (lt || gt) {
                    fail!("equal_not_ordered", "{} == {} but < gives {} / {}", ma.to_json(), mb.to_json(), lt, gt);
                }
            }
            if !ma.has_nan() && !mb.has_nan() && lt && gt {
                fail!("lt_asymmetric", "{} < {} and the reverse both hold", ma.to_json(), mb.to_json());
            }
            if ma.kind() != mb.kind() {
                cx.labels.push(format!("{}~{}", ma.kind().min(mb.kind()), ma.kind().max(mb.kind())));
            }
            let (exp, lossy) = model_less(ma, mb);
            if let Some(exp) = exp {
                if lossy {
                    cx.labels.push("lossy_int_real_observed".into());
                } else {
                    if lt != exp {
                        fail!("order_numeric_model", "{} < {} is {} expected {}", ma.to_json(), mb.to_json(), lt, exp);
                    }
                    // <= where the statement defines both sides: numbers (with coercions) by value
                    let both_numeric_view = matches!(ma, MV::Int(_) | MV::Real(_)) || matches!(mb, MV::Int(_) | MV::Real(_));
                    if both_numeric_view {
                        let (exp_gt, _) = model_less(mb, ma);
                        let exp_le = !exp_gt.unwrap_or(false);
                        if le != exp_le {
                            fail!("le_numeric_model", "{} <= {} is {} expected {}", ma.to_json(), mb.to_json(), le, exp_le);
                        }
                    } else if law_domain(ma) && law_domain(mb) {
                        // two strings / two tables: a<=b must hold if a<b or they are equal
                        if (lt || eq) && !le {
                            fail!("le_consistent", "{} <= {} is false although < is {} and == is {}", ma.to_json(), mb.to_json(), lt, eq);
                        }
                        if le && gt {
                            fail!("le_consistent", "{} <= {} and {} < it", ma.to_json(), mb.to_json(), mb.to_json());
                        }
                    }
                }
            }
        }
    }
    // transitivity of ==
    if ms.iter().all(|m| law_domain(m)) {
        let e = |i: usize, j: usize| vals[i] == vals[j];
        for (i, j, k) in [(0, 1, 2), (1, 0, 2), (0, 2, 1)] {
            if e(i, j) && e(j, k) && !e(i, k) {
                fail!("eq_transitive", "{} == {} == {} but first != last", ms[i].to_json(), ms[j].to_json(), ms[k].to_json());
            }
        }
        // transitivity of < on numeric-view triples outside the lossy region is implied by the model
    }
    cx
}

fn contains_reordered(a: &MV, b: &MV) -> bool {
    match (a, b) {
        (MV::Table(x), MV::Table(y)) => {
            if a.same_entries_any_order(b) {
                return true;
            }
            x.len() == y.len()
                && x.iter().zip(y.iter()).any(|((ka, va), (kb, vb))| contains_reordered(ka, kb) || contains_reordered(va, vb))
        }
        _ => false,
    }
}

impl Property for C19 {
    fn id(&self) -> &'static str {
        "C19"
    }
    fn rule(&self) -> &'static str {
        "case = triple (a, b, c) of host-constructed values: a random (nil, boundary ints, finite reals incl. +-0 and 2^53/2^63 edges, strings incl. empty/same-length/multi-byte, acyclic tables nested <=3; NaN/inf and function values in a labelled 1/6 of the cases), b and c derived from a/b (equal-content copy, reordered entries, prefix, deep difference, int<->real twin, length twin, sign-flipped zero) or fresh; all 9 ordered pairs and the triple are checked against: == reflexive/symmetric/transitive and equal to content equality, == implies equal std hash and table-key aliasing (signed zero excepted), == excludes < and >, < asymmetric, < and <= equal to the numeric model (nil=0, string/table=len against numbers; two strings/tables by length), truthiness, totality. non-trivial = the triple mixes >=2 kinds, or contains two distinct objects with equal content, or a nested table; distinct by hash of the decoded triple"
    }
    fn assumptions(&self) -> Vec<String> {
        vec![
            "int beyond 2^53 against a real is only observed (the documented coercion is lossy)".into(),
            "tables with equal entries in different order: only the laws are asserted, not whether they are equal".into(),
            "nil/nil, nil/string, string/table, function orderings are not fixed by the statement: only asymmetry/consistency is asserted".into(),
        ]
    }
    fn max_len(&self) -> usize {
        200
    }
    fn quick_cases(&self) -> u64 {
        4_000_000
    }
    fn describe(&self, bytes: &[u8]) -> J {
        let (a, b, c) = decode(bytes);
        json!({"a": a.to_json(), "b": b.to_json(), "c": c.to_json()})
    }
    fn run(&self, bytes: &[u8], _tier: Tier) -> CaseOut {
        let (a, b, c) = decode(bytes);
        let fp = fnv64(format!("{:?}", (&a, &b, &c)).as_bytes());
        let mut vm = Vm::new(()).expect("vm");
        let cx = check(&mut vm, [&a, &b, &c]);
        let kinds: std::collections::BTreeSet<&str> = [a.kind(), b.kind(), c.kind()].into_iter().collect();
        let nested = [&a, &b, &c].iter().any(|m| matches!(m, MV::Table(t) if t.iter().any(|(k, v)| matches!(k, MV::Table(_)) || matches!(v, MV::Table(_)))));
        let mut labels = cx.labels;
        labels.sort();
        labels.dedup();
        if nested {
            labels.push("nested_table".into());
        }
        if a.has_nan() || b.has_nan() || c.has_nan() {
            labels.push("nan".into());
        }
        let nontrivial = kinds.len() >= 2 || labels.iter().any(|l| l == "distinct_objects_equal_content") || nested;
        CaseOut {
            verdict: match cx.fail {
                Some(f) => Verdict::Fail(f),
                None => Verdict::Pass,
            },
            nontrivial,
            labels,
            fingerprint: fp,
            execs: 1,
        }
    }
    fn label_floors(&self) -> Vec<(&'static str, f64)> {
        vec![("distinct_objects_equal_content", 0.10), ("nested_table", 0.03), ("int~real", 0.05)]
    }
}
