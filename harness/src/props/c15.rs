//! C15 — error locations identify the failing card and its call chain.
//!
//! An otherwise error-free program is assembled around ONE planted fault card, reached through a
//! chain of 0..4 script calls (static and dynamic, across a submodule, through closures that are
//! invoked on the spot), at a random nesting position and operand slot. The expected trace is
//! computed from the lowered module with an independent child-numbering table; every entry is
//! also resolved through Module::get_card and must return the card with the planted CardId.

use crate::choice::{fnv64, Choices};
use crate::engine::{CaseOut, Failure, Property, Tier, Verdict};
use crate::gencards::children_of;
use crate::genprog::{gen_filler, log_stmt};
use crate::ir::*;
use crate::observe::*;
use cao_lang::compiler::{compile, Card, CardBody, CardIndex, Module};
use serde_json::{json, Value as J};
use std::rc::Rc;

pub struct C15;

const MARK: i64 = 777;

#[derive(Debug, Clone)]
struct Plan {
    program: Program,
    /// expected run-time error kind, or None for a planted compile error
    expect_kind: Option<String>,
    fault: usize,
    chain_len: usize,
    wrap_depth: usize,
    nest_depth: usize,
    has_closure_hop: bool,
    in_submodule: bool,
}

fn int(i: i64) -> Expr {
    Expr::Int(i)
}

/// the planted fault as a value-position expression; returns (expr, expected kind)
fn fault_expr(kind: usize) -> (Expr, Option<&'static str>) {
    match kind {
        0 => (Expr::CallNative("nope".into(), vec![]), Some("ProcedureNotFound")),
        1 => (Expr::CallNative("fail".into(), vec![]), Some("TaskFailure(fail:InvalidArgument)")),
        2 => (Expr::GetProp(Box::new(int(MARK)), Box::new(Expr::Str("k".into()))), Some("InvalidArgument")),
        3 => (Expr::PopTable(Box::new(int(MARK))), Some("InvalidArgument")),
        4 => (Expr::Get(Box::new(Expr::CreateTable), Box::new(int(-MARK))), Some("InvalidArgument")),
        5 => (Expr::Get(Box::new(Expr::CreateTable), Box::new(Expr::Real(777.5))), Some("InvalidArgument")),
        6 => (Expr::DynCall(Box::new(int(MARK)), vec![]), Some("InvalidArgument")),
        7 => (Expr::CallNative("slen".into(), vec![int(MARK)]), Some("TaskFailure(slen:InvalidArgument)")),
        // compile-time faults
        8 => (Expr::Call("nosuch777".into(), usize::MAX, vec![]), None),
        _ => (Expr::FuncRef("nosuch777".into(), usize::MAX), None),
    }
}

fn is_fault_card(c: &Card) -> bool {
    let lit = |c: &Card, v: i64| matches!(&c.body, CardBody::ScalarInt(x) if *x == v);
    match &c.body {
        CardBody::CallNative(n) => n.name == "nope" || n.name == "fail" || (n.name == "slen" && n.args.0.first().map(|a| lit(a, MARK)).unwrap_or(false)),
        CardBody::GetProperty(b) => lit(&b[0], MARK),
        CardBody::PopTable(u) => lit(&u.card, MARK),
        CardBody::Get(b) => lit(&b[1], -MARK) || matches!(&b[1].body, CardBody::ScalarFloat(x) if *x == 777.5),
        CardBody::DynamicCall(j) => lit(&j.function, MARK),
        CardBody::Call(j) => j.function_name == "nosuch777",
        CardBody::Function(n) => n == "nosuch777",
        CardBody::SetProperty(t) => lit(&t[1], MARK),
        CardBody::AppendTable(b) => lit(&b[1], MARK),
        CardBody::ForEach(f) => lit(&f.iterable, MARK) || [&f.i, &f.k, &f.v].iter().any(|n| n.as_deref() == Some("")),
        CardBody::Repeat(r) => r.i.as_deref() == Some(""),
        CardBody::SetVar(s) => s.name.is_empty(),
        _ => false,
    }
}

/// wrap the faulting expression into `depth` parent expressions, each time in a random operand slot
fn wrap_expr(c: &mut Choices, mut e: Expr, depth: usize) -> Expr {
    for _ in 0..depth {
        let x = || int(3);
        e = match c.draw(9) {
            0 => Expr::Bin(*c.pick(&[BinOp::Add, BinOp::Mul, BinOp::Less, BinOp::Equals, BinOp::And]), Box::new(x()), Box::new(e)),
            1 => Expr::Bin(*c.pick(&[BinOp::Sub, BinOp::Div, BinOp::LessOrEq, BinOp::Or]), Box::new(e), Box::new(x())),
            2 => Expr::Not(Box::new(e)),
            3 => Expr::Len(Box::new(e)),
            4 => Expr::IfElse(Box::new(e), Box::new(x()), Box::new(x())),
            5 => Expr::IfElse(Box::new(int(1)), Box::new(e), Box::new(x())),
            6 => Expr::CallNative("log2".into(), vec![x(), e]),
            7 => Expr::GetProp(Box::new(Expr::CreateTable), Box::new(e)),
            _ => Expr::DynCall(Box::new(Expr::NativeRef("id".into())), vec![e]),
        };
    }
    e
}

/// a statement that evaluates `e` (in various slots)
fn stmt_of(c: &mut Choices, e: Expr, can_return: bool) -> Stmt {
    match c.draw(if can_return { 8 } else { 7 }) {
        0 => log_stmt(e),
        1 => Stmt::SetGlobal("g777".into(), e),
        2 => Stmt::SetVar("loc777".into(), e),
        3 => Stmt::IfTrue(e, Box::new(log_stmt(int(1)))),
        4 => Stmt::Repeat(e, None, Box::new(log_stmt(int(1)))),
        5 => Stmt::SetProp(e, Expr::CreateTable, int(1)),
        6 => Stmt::SetProp(int(1), Expr::CreateTable, e),
        _ => Stmt::Return(e),
    }
}

/// nest the planted statement under constructs that are certainly executed; returns the statement
/// and whether a closure hop (a closure invoked on the spot) was used
fn nest(c: &mut Choices, mut s: Stmt, depth: usize, closure_id: &mut usize) -> (Stmt, bool) {
    let mut hop = false;
    for _ in 0..depth {
        let filler = || log_stmt(int(5));
        s = match c.draw(8) {
            0 => Stmt::IfTrue(int(1), Box::new(s)),
            1 => Stmt::IfFalse(int(0), Box::new(s)),
            2 => Stmt::IfElse(int(1), Box::new(s), Box::new(filler())),
            3 => Stmt::IfElse(int(0), Box::new(filler()), Box::new(s)),
            4 => Stmt::Repeat(int(2), if c.bool() { Some("ri".into()) } else { None }, Box::new(s)),
            5 => Stmt::Composite(vec![filler(), s, filler()]),
            6 => {
                // while with a dedicated counter
                Stmt::Composite(vec![
                    Stmt::SetVar("wc777".into(), int(2)),
                    Stmt::While(
                        Expr::Bin(BinOp::Less, Box::new(int(0)), Box::new(Expr::Var("wc777".into()))),
                        Box::new(Stmt::Composite(vec![s, Stmt::SetVar("wc777".into(), Expr::Bin(BinOp::Sub, Box::new(Expr::Var("wc777".into())), Box::new(int(1))))])),
                    ),
                ])
            }
            _ => {
                // a closure invoked on the spot: one more call frame whose call card is the DynamicCall
                hop = true;
                *closure_id += 1;
                let def = ClosureDef { id: 900 + *closure_id, params: vec![], body: vec![filler(), s, filler()] };
                log_stmt(Expr::DynCall(Box::new(Expr::Closure(Rc::new(def))), vec![]))
            }
        };
    }
    (s, hop)
}

// ---------------------------------------------------------------------------------------------
// second family: faults under recursion, and the exhaustion / timeout faults
// ---------------------------------------------------------------------------------------------

#[derive(Debug, Clone, PartialEq)]
enum RecFault {
    /// one of the planted fault cards, raised in the activation at this depth
    Planted(usize, usize),
    /// reading a variable that was never set, at this depth
    UnsetVar(usize),
    /// unbounded recursion: the call stack or the value stack runs out
    Exhaustion,
    /// unbounded recursion under a small instruction budget
    Timeout(u64),
}

#[derive(Debug, Clone)]
struct RecPlan {
    program: Program,
    fault: RecFault,
    /// number of plain functions between main and the recursive cycle
    outer: usize,
    /// functions in the recursive cycle (1 = direct recursion)
    cycle: usize,
    /// no parameters, no locals, no pending operands at the recursive call
    bare: bool,
}

fn decode_rec(c: &mut Choices) -> RecPlan {
    let outer = c.draw(3);
    let cycle = 1 + c.draw(2);
    let fault = match c.weighted(&[6, 2, 3, 3]) {
        0 => {
            let kind = *c.pick(&[0usize, 1, 2, 3, 4, 5, 6, 7, 10, 11, 12]);
            RecFault::Planted(kind, 1 + c.draw(7))
        }
        1 => RecFault::UnsetVar(1 + c.draw(7)),
        2 => RecFault::Exhaustion,
        _ => RecFault::Timeout(20 + c.draw(600) as u64),
    };
    let bare = c.chance(110);
    let depth_of_fault = match &fault {
        RecFault::Planted(_, d) | RecFault::UnsetVar(d) => Some(*d),
        _ => None,
    };
    let depth = || Expr::Var("depth".into());
    let mut funcs: Vec<FuncDef> = vec![];
    let total = 1 + outer + cycle;
    let name_of = |i: usize| -> String {
        if i == 0 {
            "main".into()
        } else if i <= outer {
            format!("o{}", i)
        } else {
            format!("r{}", i - outer - 1)
        }
    };
    let arities: Vec<usize> = (0..total).map(|i| if i == 0 || bare { 0 } else { c.draw(3) }).collect();
    let mut call_to = |c: &mut Choices, callee: usize| -> Stmt {
        let args: Vec<Expr> = (0..arities[callee]).map(|k| int(k as i64)).collect();
        let spelled = name_of(callee);
        let call = if c.bool() { Expr::Call(spelled, callee, args) } else { Expr::DynCall(Box::new(Expr::FuncRef(spelled, callee)), args) };
        if bare {
            // no operand is pending while the call runs
            if c.bool() {
                log_stmt(call)
            } else {
                Stmt::SetGlobal("g777".into(), call)
            }
        } else {
            let d = c.draw(2);
            let e = wrap_expr(c, call, d);
            stmt_of(c, e, false)
        }
    };
    for i in 0..total {
        let params: Vec<String> = (0..arities[i]).map(|k| format!("p{}", k)).collect();
        let mut body = vec![];
        if i == 0 {
            body.push(Stmt::SetGlobal("depth".into(), int(0)));
            body.push(log_stmt(int(7770)));
            body.push(call_to(c, 1));
        } else if i <= outer {
            body.push(log_stmt(int(7770 + i as i64)));
            body.push(call_to(c, i + 1));
        } else {
            let j = i - outer - 1;
            body.push(Stmt::SetGlobal("depth".into(), Expr::Bin(BinOp::Add, Box::new(depth()), Box::new(int(1)))));
            if !bare && c.bool() {
                body.push(Stmt::SetVar("l777".into(), int(1)));
            }
            if let Some(d) = depth_of_fault {
                // the activation at depth d runs function (d-1) mod cycle: only that one holds the fault
                if (d - 1) % cycle == j {
                    let stmt = match &fault {
                        RecFault::Planted(10, _) => Stmt::SetProp(int(1), int(MARK), Expr::Str("k".into())),
                        RecFault::Planted(11, _) => Stmt::Append(int(1), int(MARK)),
                        RecFault::Planted(12, _) => Stmt::ForEach { i: None, k: None, v: Some("fv".into()), iterable: int(MARK), body: Box::new(log_stmt(int(1))) },
                        RecFault::Planted(k, _) => {
                            let w = c.draw(2);
                            let e = wrap_expr(c, fault_expr(*k).0, w);
                            stmt_of(c, e, true)
                        }
                        _ => log_stmt(Expr::Var("unset777".into())),
                    };
                    body.push(Stmt::IfTrue(Expr::Bin(BinOp::LessOrEq, Box::new(int(d as i64)), Box::new(depth())), Box::new(stmt)));
                }
            }
            body.push(call_to(c, outer + 1 + (j + 1) % cycle));
        }
        body.push(log_stmt(int(9)));
        funcs.push(FuncDef { id: i, name: name_of(i), module: vec![], params, body });
    }
    let root = ModuleDef { name: String::new(), functions: (0..total).collect(), submodules: vec![], imports: vec![] };
    RecPlan { program: Program { funcs, root, globals: vec!["sink_".into(), "g777".into(), "depth".into()] }, fault, outer, cycle, bare }
}

/// the card in function `caller` that calls the function named `target`
fn site_in(cards: &[Found], module: &Module, caller: &str, target: &str) -> Result<Loc, String> {
    let fidx = module.functions.iter().position(|(n, _)| n == caller).ok_or_else(|| format!("no function {}", caller))?;
    let is_site = |c: &Card| match &c.body {
        CardBody::Call(j) => j.function_name == target,
        CardBody::DynamicCall(j) => matches!(&j.function.body, CardBody::Function(n) if n == target),
        _ => false,
    };
    let sites: Vec<&Found> = cards.iter().filter(|f| f.loc.0.is_empty() && f.loc.1 == fidx && is_site(f.card)).collect();
    if sites.len() != 1 {
        return Err(format!("{} call sites of {} in {}", sites.len(), target, caller));
    }
    Ok(sites[0].loc.clone())
}

/// the call cards of the chain when `n` activations of the cycle are active, innermost first
fn rec_chain(plan: &RecPlan, module: &Module, cards: &[Found], n: usize) -> Result<Vec<Loc>, String> {
    let mut chain = vec![];
    let r = |j: usize| format!("r{}", j % plan.cycle);
    // activation i (1-based) runs r((i-1) mod cycle); activation 1 is created by the last outer function
    for i in (2..=n).rev() {
        chain.push(site_in(cards, module, &r(i - 2), &r(i - 1))?);
    }
    if n >= 1 {
        let last_outer = if plan.outer == 0 { "main".to_string() } else { format!("o{}", plan.outer) };
        chain.push(site_in(cards, module, &last_outer, "r0")?);
    }
    for i in (1..=plan.outer).rev() {
        let caller = if i == 1 { "main".to_string() } else { format!("o{}", i - 1) };
        chain.push(site_in(cards, module, &caller, &format!("o{}", i))?);
    }
    Ok(chain)
}

fn run_rec(plan: &RecPlan, fp: u64) -> CaseOut {
    let module = lower(&plan.program);
    let mut labels = vec!["recursion_family".to_string(), format!("cycle{}", plan.cycle)];
    if plan.bare {
        labels.push("rec_bare_frames".into());
    }
    let mk = |clause: &str, d: String| CaseOut {
        verdict: Verdict::Fail(Failure::new(clause, &format!("c15:rec:{}", clause), d)),
        nontrivial: false,
        labels: vec![],
        fingerprint: fp,
        execs: 1,
    };
    let fmt = |l: &Loc| format!("{}#{}{:?}", l.0.join("."), l.1, l.2);
    let mut cards = vec![];
    all_cards(&module, &mut vec![], &mut cards);
    let prog = match compile(module.clone(), None) {
        Ok(p) => p,
        Err(e) => return mk("compiles", format!("{}", e)),
    };
    let cfg = match &plan.fault {
        RecFault::Timeout(b) => RunCfg { max_instr: *b, ..RunCfg::default() },
        _ => RunCfg::default(),
    };
    let obs = run_vm(&prog, &plan.program.globals, &cfg);
    let Err(kind) = &obs.outcome else { return mk("planted_error_raised", "the run succeeded".into()) };
    let got: Vec<Loc> = obs.trace.iter().map(loc_of).collect();
    if got.is_empty() {
        return mk("trace_not_empty", "empty trace".into());
    }
    // activations of the cycle that had started when the run failed
    let n = match obs.globals.get("depth") {
        Some(crate::mval::MV::Int(d)) => *d as usize,
        _ => 0,
    };
    let all = |v: &[Loc]| v.iter().map(fmt).collect::<Vec<_>>();
    // (expected trace[0] if it is a single known card, candidates for the number of active activations)
    let (first, depths): (Option<Loc>, Vec<usize>) = match &plan.fault {
        RecFault::Planted(k, d) => {
            let expect = match *k {
                10 | 11 | 12 => "InvalidArgument",
                k => fault_expr(k).1.unwrap_or("?"),
            };
            if kind != expect || n != *d {
                return mk("planted_error_raised", format!("outcome {} at depth {}, planted {} at depth {}", kind, n, expect, d));
            }
            labels.push(format!("rec_depth{}", (*d).min(3)));
            let faults: Vec<&Found> = cards.iter().filter(|f| is_fault_card(f.card)).collect();
            if faults.len() != 1 {
                return mk("harness_plan_consistent", format!("{} candidate fault cards", faults.len()));
            }
            (Some(faults[0].loc.clone()), vec![*d])
        }
        RecFault::UnsetVar(d) => {
            if !kind.starts_with("VarNotFound") || n != *d {
                return mk("planted_error_raised", format!("outcome {} at depth {}, planted VarNotFound at depth {}", kind, n, d));
            }
            labels.push("unset_variable".into());
            labels.push(format!("rec_depth{}", (*d).min(3)));
            let reads: Vec<&Found> = cards.iter().filter(|f| matches!(&f.card.body, CardBody::ReadVar(v) if v == "unset777")).collect();
            if reads.len() != 1 {
                return mk("harness_plan_consistent", format!("{} reads of the unset variable", reads.len()));
            }
            (Some(reads[0].loc.clone()), vec![*d])
        }
        RecFault::Timeout(_) if kind.ends_with("Timeout") => {
            labels.push("timeout_in_recursion".into());
            (None, vec![n, n + 1])
        }
        // (a stack can run out before a larger budget does)
        RecFault::Exhaustion | RecFault::Timeout(_) => {
            if kind.contains("CallStackOverflow") {
                labels.push("call_stack_exhausted".into());
                // the failing card is the call card that would have started activation n+1
                let chain = match rec_chain(plan, &module, &cards, n + 1) {
                    Ok(c) => c,
                    Err(e) => return mk("harness_plan_consistent", e),
                };
                (Some(chain[0].clone()), vec![n])
            } else if kind.contains("Stackoverflow") {
                labels.push("value_stack_exhausted".into());
                (None, vec![n, n + 1])
            } else {
                return mk("planted_error_raised", format!("unbounded recursion ended with {}", kind));
            }
        }
    };
    if let Some(f) = &first {
        if got[0] != *f {
            return mk("trace0_is_failing_card", format!("trace[0] {} expected {}; full trace {:?}", fmt(&got[0]), fmt(f), all(&got)));
        }
    }
    if resolve(&module, &got[0]).is_none() {
        return mk("trace0_resolves", format!("{} does not resolve", fmt(&got[0])));
    }
    let mut matched = false;
    let mut wanted = vec![];
    let mut candidates = vec![];
    for d in &depths {
        match rec_chain(plan, &module, &cards, *d) {
            Ok(c) => candidates.push(c),
            Err(e) => return mk("harness_plan_consistent", e),
        }
    }
    if n == 0 && first.is_none() {
        // the budget ran out before the recursion started: the run was still in main or in one of
        // the plain functions, so only the outer part of the chain is active
        let full = candidates[0].clone();
        for skip in 1..=full.len() {
            candidates.push(full[skip..].to_vec());
        }
    }
    for chain in candidates {
        let rest = &got[1..];
        if (rest.len() == chain.len() || rest.len() == chain.len() + 1) && rest[..chain.len()] == chain[..] {
            matched = true;
        }
        wanted.push(all(&chain));
    }
    if !matched {
        return mk(
            "trace_is_call_chain",
            format!("{} with {} activations of the recursive cycle: trace {:?} expected [failing card] + {:?} (+ optional entry)", kind, n, all(&got), wanted),
        );
    }
    for l in &got {
        if resolve(&module, l).is_none() && l != got.last().unwrap() {
            return mk("trace_entries_resolve", format!("{} does not resolve", fmt(l)));
        }
    }
    if n >= 3 {
        labels.push("rec_active>=3".into());
    }
    CaseOut { verdict: Verdict::Pass, nontrivial: n >= 2, labels, fingerprint: fp, execs: 1 }
}

// ---------------------------------------------------------------------------------------------
// third family: many small modules (one function with one top-level card each), so that the
// first card of a function directly follows the implicit return of a function of another module
// with the same card index; namespaces of the trace entries are what is at stake
// ---------------------------------------------------------------------------------------------

#[derive(Debug, Clone)]
struct ModPlan {
    program: Program,
    /// 0 = missing native, 1 = read of a never-set variable, 2 = unresolvable call (compile error)
    fault: usize,
    expected: Vec<Loc>,
}

fn decode_mods(c: &mut Choices) -> ModPlan {
    // module paths in the order the module tree lists them
    let tops: Vec<&str> = match c.draw(3) {
        0 => vec!["a", "b", "c"],
        1 => vec!["b", "a", "c"],
        _ => vec!["c", "b", "a"],
    };
    let mut paths: Vec<Vec<String>> = vec![];
    for t in &tops {
        paths.push(vec![t.to_string()]);
        if *t != "c" {
            paths.push(vec![t.to_string(), "x".to_string()]);
        }
    }
    // the call chain visits 1..4 distinct modules
    let len = 1 + c.draw(4);
    let mut pool: Vec<usize> = (0..paths.len()).collect();
    let mut chain: Vec<usize> = vec![];
    for _ in 0..len {
        let k = c.draw(pool.len());
        chain.push(pool.remove(k));
    }
    let fault = c.draw(3);
    let name_of = |p: &Vec<String>| format!("{}.f", p.join("."));
    let mut funcs = vec![FuncDef {
        id: 0,
        name: "main".into(),
        module: vec![],
        params: vec![],
        body: vec![log_stmt(int(7770)), Stmt::ExprStmt(Expr::Call(name_of(&paths[chain[0]]), 1 + chain[0], vec![])), log_stmt(int(9))],
    }];
    for (k, p) in paths.iter().enumerate() {
        let card = match chain.iter().position(|x| *x == k) {
            Some(pos) if pos + 1 < chain.len() => Expr::Call(name_of(&paths[chain[pos + 1]]), 1 + chain[pos + 1], vec![]),
            Some(_) => match fault {
                0 => Expr::CallNative("nope".into(), vec![]),
                1 => Expr::Var("unset777".into()),
                _ => Expr::Call("nosuch777".into(), usize::MAX, vec![]),
            },
            None => int(1),
        };
        funcs.push(FuncDef { id: 1 + k, name: "f".into(), module: p.clone(), params: vec![], body: vec![Stmt::ExprStmt(card)] });
    }
    let mut root = ModuleDef { name: String::new(), functions: vec![0], submodules: vec![], imports: vec![] };
    for t in &tops {
        let idx = paths.iter().position(|p| p.len() == 1 && p[0] == *t).unwrap();
        let mut m = ModuleDef { name: t.to_string(), functions: vec![1 + idx], submodules: vec![], imports: vec![] };
        if let Some(sub) = paths.iter().position(|p| p.len() == 2 && p[0] == *t) {
            m.submodules.push(ModuleDef { name: "x".into(), functions: vec![1 + sub], submodules: vec![], imports: vec![] });
        }
        root.submodules.push(m);
    }
    // every function of a module has index 0 and its only card the path [0]; main's call is its card #1
    let mut expected: Vec<Loc> = chain.iter().rev().map(|k| (paths[*k].clone(), 0usize, vec![0u32])).collect();
    expected.push((vec![], 0, vec![1]));
    ModPlan { program: Program { funcs, root, globals: vec!["sink_".into()] }, fault, expected }
}

fn run_mods(plan: &ModPlan, fp: u64) -> CaseOut {
    let module = lower(&plan.program);
    let labels = vec!["small_modules_family".to_string(), format!("mods_chain{}", plan.expected.len() - 1)];
    let mk = |clause: &str, d: String| CaseOut {
        verdict: Verdict::Fail(Failure::new(clause, &format!("c15:mods:{}", clause), d)),
        nontrivial: false,
        labels: vec![],
        fingerprint: fp,
        execs: 1,
    };
    let fmt = |l: &Loc| format!("{}#{}{:?}", l.0.join("."), l.1, l.2);
    let all = |v: &[Loc]| v.iter().map(fmt).collect::<Vec<_>>();
    let done = |labels: Vec<String>| CaseOut { verdict: Verdict::Pass, nontrivial: true, labels, fingerprint: fp, execs: 1 };
    match compile(module.clone(), None) {
        Err(e) => {
            if plan.fault != 2 {
                return mk("compiles", format!("{}", e));
            }
            let Some(loc) = &e.loc else { return mk("compile_error_has_location", format!("{}", e)) };
            let got = loc_of(loc);
            if got != plan.expected[0] {
                return mk("compile_loc_is_planted_card", format!("loc {} expected {} ({})", fmt(&got), fmt(&plan.expected[0]), e.payload));
            }
            done(labels)
        }
        Ok(prog) => {
            if plan.fault == 2 {
                return mk("planted_compile_fault_detected", "module with an unresolvable call target compiled".into());
            }
            let obs = run_vm(&prog, &plan.program.globals, &RunCfg::default());
            let kind_ok = match (&obs.outcome, plan.fault) {
                (Err(k), 0) => k == "ProcedureNotFound",
                (Err(k), _) => k.starts_with("VarNotFound"),
                _ => false,
            };
            if !kind_ok {
                return mk("planted_error_raised", format!("outcome {:?}", obs.outcome));
            }
            let got: Vec<Loc> = obs.trace.iter().map(loc_of).collect();
            let n = plan.expected.len();
            if !((got.len() == n || got.len() == n + 1) && got[..n] == plan.expected[..]) {
                return mk("trace_is_call_chain", format!("trace {:?} expected {:?} (+ optional entry)", all(&got), all(&plan.expected)));
            }
            for l in &got[..n] {
                if resolve(&module, l).is_none() {
                    return mk("trace_entries_resolve", format!("{} does not resolve", fmt(l)));
                }
            }
            done(labels)
        }
    }
}

enum CaseKind {
    Chain(Plan),
    Rec(RecPlan),
    Mods(ModPlan),
}

const REC_SHARE: u32 = 80;
const MODS_SHARE: u32 = 30;

fn decode_case(bytes: &[u8]) -> CaseKind {
    let mut c = Choices::new(bytes);
    if c.chance(REC_SHARE) {
        CaseKind::Rec(decode_rec(&mut c))
    } else if c.chance(MODS_SHARE) {
        CaseKind::Mods(decode_mods(&mut c))
    } else {
        CaseKind::Chain(decode(bytes))
    }
}

fn decode(bytes: &[u8]) -> Plan {
    let mut c = Choices::new(bytes);
    let _family = c.chance(REC_SHARE);
    let _family2 = c.chance(MODS_SHARE);
    let chain_len = c.draw(5);
    let fault = c.draw(15);
    let wrap_depth = c.draw(3);
    let nest_depth = c.draw(4);
    let use_sub = c.bool();
    let mut funcs: Vec<FuncDef> = vec![];
    let mut closure_id = 0;
    let mut has_closure_hop = false;
    let mut in_submodule = false;
    // function i calls function i+1; the last one contains the fault
    let arities: Vec<usize> = (0..=chain_len).map(|i| if i == 0 { 0 } else { c.draw(3) }).collect();
    let in_sub: Vec<bool> = (0..=chain_len).map(|i| i > 0 && use_sub && c.bool()).collect();
    for i in 0..=chain_len {
        let name = if i == 0 { "main".to_string() } else { format!("c{}", i) };
        let params: Vec<String> = (0..arities[i]).map(|k| format!("p{}", k)).collect();
        let mut body = gen_filler(&mut c, c_draw_small(bytes, i), &params, i == 0);
        let planted: Stmt = if i < chain_len {
            let callee = i + 1;
            let spelled = if in_sub[callee] { format!("m.c{}", callee) } else { format!("c{}", callee) };
            let args: Vec<Expr> = (0..arities[callee]).map(|k| int(k as i64)).collect();
            let call = if c.bool() { Expr::Call(spelled, callee, args) } else { Expr::DynCall(Box::new(Expr::FuncRef(spelled, callee)), args) };
            let d = c.draw(2);
            let e = wrap_expr(&mut c, call, d);
            stmt_of(&mut c, e, false)
        } else {
            in_submodule = in_sub[i];
            match fault {
                10 => Stmt::SetProp(int(1), int(MARK), Expr::Str("k".into())),
                11 => Stmt::Append(int(1), int(MARK)),
                12 => Stmt::ForEach { i: None, k: None, v: Some("fv".into()), iterable: int(MARK), body: Box::new(log_stmt(int(1))) },
                // compile-time faults raised by the loop card itself: an invalid (empty) loop-variable name
                13 => {
                    let empty = || Some(String::new());
                    let (i, k, v) = match c.draw(3) {
                        0 => (empty(), None, Some("fv".to_string())),
                        1 => (None, empty(), None),
                        _ => (Some("fi".to_string()), None, empty()),
                    };
                    Stmt::ForEach { i, k, v, iterable: Expr::CreateTable, body: Box::new(Stmt::Composite(vec![log_stmt(int(1)), log_stmt(int(2))])) }
                }
                14 => Stmt::Repeat(int(2), Some(String::new()), Box::new(Stmt::Composite(vec![log_stmt(int(1))]))),
                _ => {
                    let (f, _) = fault_expr(fault);
                    let e = wrap_expr(&mut c, f, wrap_depth);
                    stmt_of(&mut c, e, i != 0)
                }
            }
        };
        let (planted, hop) = nest(&mut c, planted, nest_depth.min(if i < chain_len { 2 } else { 3 }), &mut closure_id);
        has_closure_hop |= hop;
        // marker: lets the reference run tell whether the error came from the planted statement
        body.push(log_stmt(int(7770 + i as i64)));
        body.push(planted);
        // something always follows the planted statement, so the fault is never the last instruction
        body.extend(gen_filler(&mut c, 1 + c_draw_small(bytes, i + 7), &params, i == 0));
        body.push(log_stmt(int(9)));
        let module = if in_sub[i] { vec!["m".to_string()] } else { vec![] };
        funcs.push(FuncDef { id: i, name, module, params, body });
    }
    let n = funcs.len();
    let mut root = ModuleDef { name: String::new(), functions: (0..n).filter(|i| !in_sub[*i]).collect(), submodules: vec![], imports: vec![] };
    let subs: Vec<usize> = (0..n).filter(|i| in_sub[*i]).collect();
    if !subs.is_empty() {
        root.submodules.push(ModuleDef { name: "m".into(), functions: subs, submodules: vec![], imports: vec![] });
    }
    let expect_kind = match fault {
        10 | 11 | 12 => Some("InvalidArgument".to_string()),
        13 | 14 => None,
        f => fault_expr(f).1.map(|s| s.to_string()),
    };
    Plan {
        program: Program { funcs, root, globals: vec!["sink_".into(), "g777".into()] },
        expect_kind,
        fault,
        chain_len,
        wrap_depth,
        nest_depth,
        has_closure_hop,
        in_submodule,
    }
}

/// number of filler statements, derived from the raw bytes so that it does not disturb the main
/// choice sequence
fn c_draw_small(bytes: &[u8], salt: usize) -> usize {
    (bytes.get(salt).copied().unwrap_or(0) as usize * 3) >> 8
}

type Loc = (Vec<String>, usize, Vec<u32>);

struct Found<'a> {
    loc: Loc,
    card: &'a Card,
}

fn walk<'a>(card: &'a Card, ns: &[String], f: usize, path: &mut Vec<u32>, out: &mut Vec<Found<'a>>) {
    out.push(Found { loc: (ns.to_vec(), f, path.clone()), card });
    for (i, ch) in children_of(card).into_iter().enumerate() {
        path.push(i as u32);
        walk(ch, ns, f, path, out);
        path.pop();
    }
}

fn all_cards<'a>(m: &'a Module, ns: &mut Vec<String>, out: &mut Vec<Found<'a>>) {
    for (f, (_, func)) in m.functions.iter().enumerate() {
        for (j, c) in func.cards.iter().enumerate() {
            walk(c, ns, f, &mut vec![j as u32], out);
        }
    }
    for (name, sub) in &m.submodules {
        ns.push(name.clone());
        all_cards(sub, ns, out);
        ns.pop();
    }
}

fn card_at<'a>(cards: &'a [Found<'a>], loc: &Loc) -> Option<&'a Card> {
    cards.iter().find(|f| &f.loc == loc).map(|f| f.card)
}

/// closure invocations (DynamicCall whose function child is a Closure containing the location)
/// enclosing `loc`, innermost first
fn closure_hops(cards: &[Found], loc: &Loc) -> Vec<Loc> {
    let mut out = vec![];
    let (ns, f, path) = loc;
    // ancestors from the deepest to the shallowest
    for len in (1..path.len()).rev() {
        let anc: Loc = (ns.clone(), *f, path[..len].to_vec());
        if let Some(c) = card_at(cards, &anc) {
            if matches!(c.body, CardBody::Closure(_)) && len >= 2 && path[len - 1] == 0 {
                let parent: Loc = (ns.clone(), *f, path[..len - 1].to_vec());
                if let Some(p) = card_at(cards, &parent) {
                    if matches!(p.body, CardBody::DynamicCall(_)) {
                        out.push(parent);
                    }
                }
            }
        }
    }
    out
}

fn expected_trace(plan: &Plan, module: &Module) -> Result<(Vec<Loc>, u64), String> {
    let mut cards = vec![];
    all_cards(module, &mut vec![], &mut cards);
    let faults: Vec<&Found> = cards.iter().filter(|f| is_fault_card(f.card)).collect();
    if faults.len() != 1 {
        return Err(format!("{} candidate fault cards", faults.len()));
    }
    let fault = faults[0];
    let mut trace = vec![fault.loc.clone()];
    trace.extend(closure_hops(&cards, &fault.loc));
    // call sites, innermost first
    for i in (1..=plan.chain_len).rev() {
        let target = format!("c{}", i);
        let is_site = |c: &Card| match &c.body {
            CardBody::Call(j) => j.function_name == target || j.function_name == format!("m.{}", target),
            CardBody::DynamicCall(j) => matches!(&j.function.body, CardBody::Function(n) if *n == target || *n == format!("m.{}", target)),
            _ => false,
        };
        let sites: Vec<&Found> = cards.iter().filter(|f| is_site(f.card)).collect();
        if sites.len() != 1 {
            return Err(format!("{} call sites of {}", sites.len(), target));
        }
        trace.push(sites[0].loc.clone());
        trace.extend(closure_hops(&cards, &sites[0].loc));
    }
    Ok((trace, fault.card.id.0))
}

fn resolve<'a>(module: &'a Module, loc: &Loc) -> Option<&'a Card> {
    let m = if loc.0.is_empty() { Some(module) } else { module.lookup_submodule(&loc.0.join(".")) }?;
    m.get_card(&CardIndex::from_slice(loc.1, &loc.2)).ok()
}

fn loc_of(t: &cao_lang::prelude::Trace) -> Loc {
    (t.namespace.iter().map(|s| s.to_string()).collect(), t.index.function, t.index.card_index.indices.to_vec())
}

impl Property for C15 {
    fn id(&self) -> &'static str {
        "C15"
    }
    fn rule(&self) -> &'static str {
        "case = error-free filler program (generated) around ONE planted fault card: 13 fault kinds (missing native, failing native, table op / pop / row with bad index / property on a non-table, calling a non-function, &str-typed native given an int, set-property / append / for-each on a non-table, and the compile-time faults unresolvable call target / function value / empty loop-variable name of a for-each or repeat), placed in a random operand slot of 0-2 wrapper cards, in a statement of 8 shapes, nested 0-3 times under if / else / repeat / while / composite / a closure invoked on the spot, in the last of 0-4 chained script functions (static and dynamic calls, some in a submodule), always followed by more code. Oracle: the error kind is the planted one, trace[0] equals the planted card's index computed with an independent child-numbering table AND resolves through Module::get_card to the planted CardId, trace[1..] equals the call cards of the chain innermost->outermost incl. closure invocations (one extra final entry accepted as program entry); compile faults: loc resolves to the planted card. Second family (about 30% of the cases): main -> 0-2 plain functions -> a recursive cycle of 1 or 2 functions (with or without parameters / locals / pending operands at the call), with (a) one of the planted fault cards or a read of a never-set variable raised in the activation at depth 1..7, (b) unbounded recursion until the call stack or the value stack is exhausted, (c) unbounded recursion under an instruction budget of 20..620; the number n of active activations is read from a counter global; oracle: error kind as planted, trace[0] is the planted card (a/ the failing call card for call-stack exhaustion; any resolvable card for value-stack exhaustion and timeout), trace[1..] is exactly the n (or, where the fault can fall between the call and the counter, n or n+1) recursive call cards followed by the outer chain. non-trivial = chain length >= 1 or operand slot depth >= 1 or >= 2 active recursive activations; distinct by hash of the decoded plan"
    }
    fn assumptions(&self) -> Vec<String> {
        vec![
            "memory exhaustion is not planted in this check; chains through native re-entry are not generated (a native that re-enters the interpreter reports the inner failure as its own, see C18)".into(),
            "one extra trailing trace entry is accepted as the program entry".into(),
        ]
    }
    fn max_len(&self) -> usize {
        900
    }
    fn quick_cases(&self) -> u64 {
        160_000
    }
    fn states_termination(&self) -> bool {
        true
    }
    fn describe(&self, bytes: &[u8]) -> J {
        match decode_case(bytes) {
            CaseKind::Rec(r) => return json!({"family": "recursion", "fault": format!("{:?}", r.fault), "outer_chain": r.outer, "cycle": r.cycle, "bare_frames": r.bare, "program": program_json(&r.program)}),
            CaseKind::Mods(m) => return json!({"family": "small_modules", "fault": m.fault, "expected_trace": format!("{:?}", m.expected), "program": program_json(&m.program)}),
            CaseKind::Chain(_) => {}
        }
        let p = decode(bytes);
        json!({"fault_kind": p.fault, "expected_error": p.expect_kind, "chain_len": p.chain_len, "wrap_depth": p.wrap_depth, "nest_depth": p.nest_depth, "program": program_json(&p.program)})
    }
    fn run(&self, bytes: &[u8], _tier: Tier) -> CaseOut {
        match decode_case(bytes) {
            CaseKind::Rec(r) => {
                let fp = fnv64(format!("{:?}", r).as_bytes());
                return run_rec(&r, fp);
            }
            CaseKind::Mods(m) => {
                let fp = fnv64(format!("{:?}", m).as_bytes());
                return run_mods(&m, fp);
            }
            CaseKind::Chain(_) => {}
        }
        let plan = decode(bytes);
        let fp = fnv64(format!("{:?}", plan).as_bytes());
        let module = lower(&plan.program);
        let mut labels = vec![format!("fault{}", plan.fault), format!("chain{}", plan.chain_len), format!("wrap{}", plan.wrap_depth)];
        if plan.has_closure_hop {
            labels.push("closure_hop".into());
        }
        if plan.in_submodule {
            labels.push("fault_in_submodule".into());
        }
        let nontrivial = plan.chain_len >= 1 || plan.wrap_depth >= 1;
        let mk = |clause: &str, d: String| CaseOut {
            verdict: Verdict::Fail(Failure::new(clause, &format!("c15:{}", clause), d)),
            nontrivial: false,
            labels: vec![],
            fingerprint: fp,
            execs: 1,
        };
        let (expected, fault_id) = match expected_trace(&plan, &module) {
            Ok(x) => x,
            Err(e) => return mk("harness_plan_consistent", e),
        };
        let fmt = |l: &Loc| format!("{}#{}{:?}", l.0.join("."), l.1, l.2);
        match (compile(module.clone(), None), &plan.expect_kind) {
            (Err(e), None) => {
                labels.push("compile_fault".into());
                let Some(loc) = &e.loc else { return mk("compile_error_has_location", format!("{}", e)) };
                let got = loc_of(loc);
                if got != expected[0] {
                    return mk("compile_loc_is_planted_card", format!("loc {} expected {} ({})", fmt(&got), fmt(&expected[0]), e.payload));
                }
                match resolve(&module, &got) {
                    Some(c) if c.id.0 == fault_id => {}
                    other => return mk("compile_loc_resolves", format!("get_card({}) = {:?}", fmt(&got), other.map(|c| c.id))),
                }
            }
            (Ok(_), None) => return mk("planted_compile_fault_detected", "module with an unresolvable call target compiled".into()),
            (Err(e), Some(_)) => return mk("compiles", format!("error-free program with a run-time fault was rejected: {}", e)),
            (Ok(prog), Some(kind)) => {
                // the reference interpreter confirms that the plan reaches the planted fault
                let r = crate::refsem::run_reference(&plan.program, 60_000);
                // (the generated filler is typed flow-insensitively and can itself raise an error):
                // the last marker logged must be the one in front of the planted statement, followed
                // only by the log(5) fillers of the nesting wrappers
                let is_int = |e: &(String, Vec<crate::mval::MV>), v: i64| e.0 == "log" && matches!(e.1.first(), Some(crate::mval::MV::Int(x)) if *x == v);
                let marker = 7770 + plan.chain_len as i64;
                let reached = match r.log.iter().rposition(|e| is_int(e, marker)) {
                    Some(p) => r.log[p + 1..].iter().all(|e| is_int(e, 5)),
                    None => false,
                };
                let kind_ok = matches!(&r.outcome, Err(e) if e.name() == *kind);
                if !reached || !kind_ok {
                    return CaseOut { verdict: Verdict::Discard("plan_does_not_reach_fault"), nontrivial: false, labels, fingerprint: fp, execs: 0 };
                }
                let obs = run_vm(&prog, &plan.program.globals, &RunCfg::default());
                if obs.outcome != Err(kind.clone()) {
                    // the filler is generated error-free; a different outcome means the plan was not executed as intended
                    return mk("planted_error_raised", format!("outcome {:?}, planted {}", obs.outcome, kind));
                }
                let got: Vec<Loc> = obs.trace.iter().map(loc_of).collect();
                if got.is_empty() {
                    return mk("trace_not_empty", "empty trace".into());
                }
                if got[0] != expected[0] {
                    return mk("trace0_is_failing_card", format!("trace[0] {} expected {}; full trace {:?}", fmt(&got[0]), fmt(&expected[0]), got.iter().map(fmt).collect::<Vec<_>>()));
                }
                match resolve(&module, &got[0]) {
                    Some(c) if c.id.0 == fault_id => {}
                    other => return mk("trace0_resolves", format!("get_card({}) = {:?} expected card {}", fmt(&got[0]), other.map(|c| c.id), fault_id)),
                }
                let chain_ok = (got.len() == expected.len() || got.len() == expected.len() + 1) && got[..expected.len()] == expected[..];
                if !chain_ok {
                    return mk(
                        "trace_is_call_chain",
                        format!("trace {:?} expected {:?} (+ optional entry)", got.iter().map(fmt).collect::<Vec<_>>(), expected.iter().map(fmt).collect::<Vec<_>>()),
                    );
                }
                for l in &got[..expected.len()] {
                    if resolve(&module, l).is_none() {
                        return mk("trace_entries_resolve", format!("{} does not resolve", fmt(l)));
                    }
                }
            }
        }
        CaseOut { verdict: Verdict::Pass, nontrivial, labels, fingerprint: fp, execs: 1 }
    }
    fn label_floors(&self) -> Vec<(&'static str, f64)> {
        vec![("rec_active>=3", 0.08), ("call_stack_exhausted", 0.01), ("timeout_in_recursion", 0.02), ("rec_bare_frames", 0.05), ("closure_hop", 0.04), ("chain4", 0.04), ("fault_in_submodule", 0.05), ("compile_fault", 0.05), ("wrap2", 0.1)]
    }
}
