//! C10 — the compiler emits structurally valid bytecode.
//! Every module that compiles (well-scoped programs from two generator configurations and
//! arbitrary card trees) is checked by the independent decoder in `bcverify`.

use crate::bcverify::{cross_check_table, verify, Features};
use crate::choice::{fnv64, Choices};
use crate::engine::{CaseOut, Failure, Property, Tier, Verdict};
use crate::gencards::CardGen;
use crate::genprog::{gen_program, GenCfg};
use crate::ir::lower;
use cao_lang::compiler::{compile, Module};
use serde_json::{json, Value as J};

pub struct C10;

pub fn decode(bytes: &[u8]) -> (u8, Module) {
    let mut c = Choices::new(bytes);
    let source = c.weighted(&[4, 3, 3, 2]) as u8;
    let m = match source {
        0 => {
            let mut cfg = GenCfg::default();
            // long string literals and many strings: the data section is part of the artefact
            cfg.budget = 140;
            let mut p = gen_program(&mut c, &cfg);
            if c.chance(40) {
                let n = 200 + c.draw(200);
                if let Some(f) = p.funcs.first_mut() {
                    f.body.push(crate::genprog::log_stmt(crate::ir::Expr::Str("s".repeat(n))));
                }
            }
            lower(&p)
        }
        1 => lower(&gen_program(&mut c, &crate::props::c06::cfg())),
        3 => {
            // modules built around the compiler's limits (locals up to and beyond 255 followed by
            // constructs that need hidden local slots, loops nested deep, many globals, ...):
            // whatever still compiles there must be well-formed too
            crate::props::c04::compile_stress(&mut c).1
        }
        _ => {
            let mut g = CardGen::new();
            g.max_depth = 3;
            g.module(&mut c, 1)
        }
    };
    (source, m)
}

impl Property for C10 {
    fn id(&self) -> &'static str {
        "C10"
    }
    fn rule(&self) -> &'static str {
        "case = a Module from one of four generators (well-scoped programs, closure-heavy programs, arbitrary card trees incl. shapes the VM would mis-run, modules built around the compiler's limits: up to 257 locals followed by constructs needing hidden local slots, loops nested up to 69 deep, many globals / functions / submodules); every module that compiles is decoded front to back by an independent decoder with its own opcode/operand-width table (cross-checked against the crate's table): known opcodes, complete operands, Exit last, jump/label/trace targets on instruction starts, function/closure handles labelled with consistent arity, string operands complete UTF-8 and readable through the VM's window, local/upvalue/global indices in range, ids<->names bijective, every failing instruction traced, disassembler walk identical. non-trivial = compiled program with >=1 jump and >=1 of {closure, for-each, string operand, >=2 function pointers}; distinct by hash of the bytecode"
    }
    fn assumptions(&self) -> Vec<String> {
        vec![
            "the definition a FunctionPointer names is identified by its label only; its arity is checked for consistency across all uses of the handle".into(),
            "Pop, CloseUpvalue, Exit and the jumps are treated as instructions that cannot fail (no trace entry required)".into(),
        ]
    }
    fn max_len(&self) -> usize {
        1600
    }
    fn quick_cases(&self) -> u64 {
        192_000
    }
    fn describe(&self, bytes: &[u8]) -> J {
        let (source, m) = decode(bytes);
        json!({"generator": source, "module": serde_json::to_value(&m).unwrap_or(J::Null)})
    }
    fn run(&self, bytes: &[u8], _tier: Tier) -> CaseOut {
        if let Err(e) = cross_check_table() {
            return CaseOut {
                verdict: Verdict::Fail(Failure::new("instruction_table_agrees", "bc:instruction_table", e)),
                nontrivial: false,
                labels: vec![],
                fingerprint: 0,
                execs: 1,
            };
        }
        let (source, m) = decode(bytes);
        let mut labels = vec![format!("gen{}", source)];
        // handle of the entry function: functions are numbered in flattening order, root first
        let main_handle = m
            .functions
            .iter()
            .position(|(n, _)| n == "main")
            .map(|i| cao_lang::collections::handle_table::Handle::from_u64(i as u64).value());
        let prog = match compile(m, None) {
            Ok(p) => p,
            Err(_) => {
                labels.push("compile_err".into());
                return CaseOut { verdict: Verdict::Pass, nontrivial: false, labels, fingerprint: fnv64(bytes), execs: 1 };
            }
        };
        labels.push(format!("compiled_gen{}", source));
        let fp = fnv64(&prog.bytecode);
        let mut feats = Features::default();
        let res = verify(&prog, &mut feats);
        for o in &feats.opcodes {
            labels.push(format!("op:{}", o));
        }
        if feats.data_len > 256 {
            labels.push("data>256B".into());
        }
        let nontrivial = feats.jumps >= 1 && (feats.closures >= 1 || feats.foreach >= 1 || feats.strings >= 1 || feats.function_pointers >= 2);
        let verdict = match res {
            Ok(()) => Verdict::Pass,
            Err((clause, detail)) => {
                let entry = clause == "function_label_exists"
                    && main_handle.map(|h| detail.contains(&format!("handle {:#x} ", h))).unwrap_or(false);
                let sig = if entry { "bc:entry_function_has_no_label".to_string() } else { format!("bc:{}", clause) };
                Verdict::Fail(Failure::new(&clause, &sig, detail))
            }
        };
        CaseOut { verdict, nontrivial, labels, fingerprint: fp, execs: 1 }
    }
    fn label_floors(&self) -> Vec<(&'static str, f64)> {
        vec![("compiled_gen0", 0.2), ("compiled_gen1", 0.15), ("compiled_gen2", 0.005), ("op:Closure", 0.1), ("op:ForEach", 0.05)]
    }
}
