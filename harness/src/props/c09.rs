//! C09 — standard-library functions meet their contracts.
//!
//! Generated tables (sizes 0,1,2 and ties over-represented; int/string/real/nil keys; numeric,
//! nil, string and nested-table values) and callbacks (closures and script functions of arity
//! 1-3: pure predicates and keys, allocating, capturing, counting, nested library calls) are
//! passed to every std function, through the absolute path and through imports. Oracle: the
//! contracts of the property written as direct specifications inside the reference interpreter
//! (`call_std`), callbacks evaluated by the reference interpreter; results and the input tables
//! after the call are logged and compared.

use crate::choice::{fnv64, Choices};
use crate::engine::{CaseOut, Failure, Property, Tier, Verdict};
use crate::genprog::log_stmt;
use crate::ir::*;
use crate::observe::*;
use crate::props::c01::compare;
use crate::refsem::{run_reference, std_id, ErrKind};
use serde_json::{json, Value as J};
use std::rc::Rc;

pub struct C09;

fn int(i: i64) -> Expr {
    Expr::Int(i)
}
fn var(n: &str) -> Expr {
    Expr::Var(n.into())
}
fn bin(op: BinOp, a: Expr, b: Expr) -> Expr {
    Expr::Bin(op, Box::new(a), Box::new(b))
}

struct Gen<'a, 'c> {
    c: &'a mut Choices<'c>,
    next_closure: usize,
    labels: Vec<String>,
    script_fns: Vec<FuncDef>,
}

impl<'a, 'c> Gen<'a, 'c> {
    fn key(&mut self, i: usize) -> Expr {
        match self.c.weighted(&[10, 4, 2, 1]) {
            0 => int(if self.c.chance(200) { i as i64 } else { self.c.range(-3, 20) }),
            1 => Expr::Str(format!("k{}", self.c.draw(6))),
            2 => Expr::Real(self.c.range(1, 9) as f64 + 0.5),
            _ => Expr::Nil,
        }
    }
    fn numeric_value(&mut self) -> Expr {
        match self.c.weighted(&[10, 4, 1]) {
            0 => int(self.c.range(-2, 6)), // small range: ties are common
            1 => Expr::Real(self.c.range(-4, 12) as f64 / 2.0),
            _ => Expr::Nil,
        }
    }
    fn any_value(&mut self) -> Expr {
        match self.c.weighted(&[8, 3, 2]) {
            0 => self.numeric_value(),
            1 => Expr::Str(["", "a", "bb", "ccc"][self.c.draw(4)].to_string()),
            _ => Expr::CreateTable,
        }
    }

    /// statements that build table variable `name` with n entries
    fn table(&mut self, name: &str, numeric: bool, out: &mut Vec<Stmt>) -> usize {
        let n = match self.c.weighted(&[3, 3, 3, 10, 1]) {
            0 => 0,
            1 => 1,
            2 => 2,
            3 => 3 + self.c.draw(10),
            _ => 20 + self.c.draw(21),
        };
        out.push(Stmt::SetVar(name.into(), Expr::CreateTable));
        for i in 0..n {
            let k = self.key(i);
            let v = if numeric { self.numeric_value() } else { self.any_value() };
            out.push(Stmt::SetProp(v, var(name), k));
        }
        if n > 8 {
            self.labels.push("size>8".into());
        }
        if n <= 1 {
            self.labels.push("size<=1".into());
        }
        n
    }

    /// callback of the given arity (parameters k, v, i in declaration order)
    fn callback(&mut self, arity: usize, out: &mut Vec<Stmt>) -> Expr {
        let params: Vec<String> = ["k", "v", "i"][..arity].iter().map(|s| s.to_string()).collect();
        let v = if arity >= 2 { var("v") } else { var("k") };
        let cst = int(self.c.range(0, 4));
        let mut body: Vec<Stmt> = vec![];
        let ret = match self.c.weighted(&[6, 3, 6, 4, 3, 3, 2, 2, 3, 4, 4, 4, 3, if arity == 3 { 3 } else { 0 }]) {
            0 => v,
            1 => var("k"),
            2 => bin(BinOp::Less, v, cst),
            3 => bin(BinOp::Less, cst, v),
            4 => bin(BinOp::Add, v, var("k")),
            5 => Expr::Len(Box::new(v)),
            6 => bin(BinOp::Mul, v.clone(), v),
            7 => Expr::Not(Box::new(v)),
            8 => bin(BinOp::Equals, v, cst),
            9 => {
                self.labels.push("alloc_cb".into());
                Expr::CallNative("mk_str".into(), vec![v])
            }
            10 => {
                self.labels.push("capturing_cb".into());
                bin(BinOp::Add, v, var("cap"))
            }
            11 => {
                self.labels.push("counting_cb".into());
                body.push(Stmt::SetVar("cnt".into(), bin(BinOp::Add, var("cnt"), int(1))));
                v
            }
            12 => {
                self.labels.push("nested_lib_call".into());
                body.push(Stmt::SetVar("arr".into(), Expr::Array(vec![v, cst, int(1)])));
                Expr::GetProp(Box::new(Expr::Call("std.max".into(), std_id("max").unwrap(), vec![var("arr")])), Box::new(Expr::Str("value".into())))
            }
            _ => bin(BinOp::Less, var("i"), cst),
        };
        body.push(Stmt::Return(ret));
        self.labels.push(format!("arity_{}", arity));
        if self.c.chance(60) {
            // a script function instead of a closure (cannot capture)
            let uses_capture = format!("{:?}", body).contains("\"cap\"") || format!("{:?}", body).contains("\"cnt\"");
            if !uses_capture {
                let id = 1 + self.script_fns.len();
                let name = format!("cb{}", id);
                self.script_fns.push(FuncDef { id, name: name.clone(), module: vec![], params, body });
                self.labels.push("script_fn_cb".into());
                return Expr::FuncRef(name, id);
            }
        }
        self.next_closure += 1;
        let _ = out;
        Expr::Closure(Rc::new(ClosureDef { id: self.next_closure, params, body }))
    }
}

pub fn decode(bytes: &[u8]) -> (Program, Vec<String>) {
    let mut c = Choices::new(bytes);
    let mut g = Gen { c: &mut c, next_closure: 0, labels: vec![], script_fns: vec![] };
    let mut body = vec![Stmt::SetVar("cap".into(), int(10)), Stmt::SetVar("cnt".into(), int(0))];
    let mut imports: Vec<String> = vec![];
    let ncalls = 1 + g.c.draw(3);
    for call in 0..ncalls {
        let fname = *g.c.pick(&["filter", "map", "any", "min", "max", "min_by_key", "max_by_key", "sorted", "sorted_by_key", "to_array"]);
        g.labels.push(format!("fn:{}", fname));
        let numeric = matches!(fname, "min" | "max" | "sorted" | "min_by_key" | "max_by_key" | "sorted_by_key");
        let tname = format!("t{}", call);
        g.table(&tname, numeric, &mut body);
        let non_table = g.c.chance(20);
        let iterable = if non_table {
            g.labels.push("non_table_input".into());
            [Expr::Nil, int(7), Expr::Real(2.5), Expr::Str("str".into())][g.c.draw(4)].clone()
        } else {
            var(&tname)
        };
        let needs_cb = matches!(fname, "filter" | "map" | "any" | "min_by_key" | "max_by_key" | "sorted_by_key");
        let mut args = vec![];
        if needs_cb {
            let arity = if matches!(fname, "filter" | "map" | "any") {
                match g.c.weighted(&[8, 2, 1]) {
                    0 => 3,
                    1 => 2,
                    _ => 1,
                }
            } else {
                2
            };
            let cb = g.callback(arity, &mut body);
            args.push(cb); // first supplied argument = last declared parameter (callback / key_function)
        }
        args.push(iterable);
        // spelled through the absolute path or through an import of the root module
        let spelled = if g.c.bool() {
            let imp = format!("std.{}", fname);
            if !imports.contains(&imp) {
                imports.push(imp);
            }
            g.labels.push("via_import".into());
            fname.to_string()
        } else {
            format!("std.{}", fname)
        };
        body.push(Stmt::SetVar("r".into(), Expr::Call(spelled, std_id(fname).unwrap(), args)));
        body.push(log_stmt(var("r")));
        // none of the functions modifies its input
        body.push(log_stmt(var(&tname)));
    }
    body.push(log_stmt(var("cap")));
    let mut funcs = vec![FuncDef { id: 0, name: "main".into(), module: vec![], params: vec![], body }];
    funcs.extend(g.script_fns.clone());
    let n = funcs.len();
    let labels = g.labels.clone();
    (Program { funcs, root: ModuleDef { name: String::new(), functions: (0..n).collect(), submodules: vec![], imports }, globals: vec!["sink_".into()] }, labels)
}

impl Property for C09 {
    fn id(&self) -> &'static str {
        "C09"
    }
    fn rule(&self) -> &'static str {
        "case = program with 1-3 std calls (filter map any min max min_by_key max_by_key sorted sorted_by_key to_array, spelled std.X or imported), each on a freshly built table (0/1/2 entries over-represented, 3-12 typical, 20-40 rare; keys int/string/real/nil incl. non-sequential; values small ints and half-reals with many ties and nil for the ordering functions, plus strings and nested tables for the others) or on a non-table input, with a callback of arity 1-3 as closure or script function from 14 templates (identity, key, thresholds, sums, len, square, not, equality, allocating, capturing, counting, nested std.max call, index); the result and the input table are logged after every call. Oracle: direct specifications of the contracts in the reference interpreter (same keys/values/order for filter, callback results for map, first truthy key for any, first extremal row for min/max, stable ascending order for sorted, 0..n-1 re-keying for to_array, non-table returned unchanged by the native-backed functions, inputs unmodified). non-trivial = a table with >=3 entries, or an allocating/capturing/counting/nested callback, or an empty/one-entry/non-table input; distinct by hash of the program"
    }
    fn assumptions(&self) -> Vec<String> {
        vec![
            "callbacks do not log or write globals: the statement does not fix how often or in which order a callback is invoked".into(),
            "ordering functions get values that are mutually comparable (numbers and nil); NaN keys are excluded".into(),
            "key functions of the *_by_key functions have exactly two parameters".into(),
        ]
    }
    fn max_len(&self) -> usize {
        900
    }
    fn quick_cases(&self) -> u64 {
        600_000
    }
    fn states_termination(&self) -> bool {
        true
    }
    fn describe(&self, bytes: &[u8]) -> J {
        let (p, _) = decode(bytes);
        program_json(&p)
    }
    fn structured(&self, bytes: &[u8]) -> Option<J> {
        serde_json::to_value(decode(bytes).0).ok()
    }
    fn run_structured(&self, case: &J, _tier: Tier) -> Option<CaseOut> {
        let prog: Program = serde_json::from_value(case.clone()).ok()?;
        Some(run_program(&prog, vec![]))
    }
    fn run(&self, bytes: &[u8], _tier: Tier) -> CaseOut {
        let (p, labels) = decode(bytes);
        run_program(&p, labels)
    }
    fn label_floors(&self) -> Vec<(&'static str, f64)> {
        vec![("size>8", 0.1), ("alloc_cb", 0.03), ("capturing_cb", 0.03), ("nested_lib_call", 0.02), ("non_table_input", 0.03), ("via_import", 0.2)]
    }
}

fn run_program(prog: &Program, mut labels: Vec<String>) -> CaseOut {
    let fp = fnv64(format!("{:?}", prog).as_bytes());
    labels.sort();
    labels.dedup();
    let r = run_reference(prog, 120_000);
    if let Err(ErrKind::Undefined(w)) = &r.outcome {
        return CaseOut { verdict: Verdict::Discard(w), nontrivial: false, labels, fingerprint: fp, execs: 0 };
    }
    for t in &r.tags {
        labels.push(format!("tag:{}", t));
    }
    let mk = |clause: &str, sig: &str, d: String| CaseOut {
        verdict: Verdict::Fail(Failure::new(clause, sig, d)),
        nontrivial: false,
        labels: vec![],
        fingerprint: fp,
        execs: 1,
    };
    let compiled = match compile_program(prog) {
        Ok(c) => c,
        Err(e) => return mk("compiles", "c09:compile_error", format!("{}", e)),
    };
    let obs = run_vm(&compiled, &prog.globals, &RunCfg::default());
    let nontrivial = labels.iter().any(|l| matches!(l.as_str(), "size>8" | "size<=1" | "alloc_cb" | "capturing_cb" | "counting_cb" | "nested_lib_call" | "non_table_input"))
        || r.stats.table_ops >= 6;
    match compare(&obs, &r) {
        None => CaseOut { verdict: Verdict::Pass, nontrivial, labels, fingerprint: fp, execs: 1 },
        Some((clause, detail)) => {
            let tags: Vec<String> = r.tags.iter().cloned().collect();
            let sig = if tags.is_empty() { format!("c09:{}", clause) } else { format!("c09:{}:{}", clause, tags.join("+")) };
            mk(&clause, &sig, detail)
        }
    }
}

pub fn sample(bytes: &[u8]) -> J {
    json!(program_json(&decode(bytes).0))
}
