//! C08 — a call invokes exactly the function that name resolution designates.
//!
//! Module trees with the same function names in many modules, function imports, module-prefix
//! imports, `super.` chains, shadowing, and the error classes the property enumerates. An
//! independent resolver model implements the stated lookup order; the program is then run by
//! the reference interpreter USING THE MODEL'S resolution and by the real compiler + VM using
//! the spelled names: host logs (which bodies ran, in which order, with which parameters,
//! sentinel locals of the callers) must agree; enumerated error classes must be compile errors.

use crate::choice::{fnv64, Choices};
use crate::engine::{CaseOut, Failure, Property, Tier, Verdict};
use crate::genprog::log_stmt;
use crate::ir::*;
use crate::observe::*;
use crate::props::c01::compare;
use crate::refsem::run_reference;
use cao_lang::compiler::CompilationErrorPayload as CE;
use serde_json::{json, Value as J};

pub struct C08;

#[derive(Debug, Clone)]
struct MTree {
    name: String,
    fns: Vec<(String, usize)>, // (name, arity)
    subs: Vec<MTree>,
    imports: Vec<String>,
}

#[derive(Debug, Clone, PartialEq)]
enum Expect {
    Compiles,
    Error(&'static str),
}

#[derive(Debug, Clone)]
struct Flat {
    path: Vec<String>, // module path
    name: String,
    arity: usize,
}

fn flatten(t: &MTree, path: &mut Vec<String>, out: &mut Vec<Flat>) {
    for (n, a) in &t.fns {
        out.push(Flat { path: path.clone(), name: n.clone(), arity: *a });
    }
    for s in &t.subs {
        path.push(s.name.clone());
        flatten(s, path, out);
        path.pop();
    }
}

fn module_at<'a>(t: &'a MTree, path: &[String]) -> Option<&'a MTree> {
    let mut cur = t;
    for p in path {
        cur = cur.subs.iter().find(|s| &s.name == p)?;
    }
    Some(cur)
}

/// first function with this full path, in flattening order (duplicates are an error class)
fn find_fn(flat: &[Flat], full: &[String]) -> Option<usize> {
    if full.is_empty() {
        return None;
    }
    let (name, path) = full.split_last().unwrap();
    flat.iter().position(|f| f.path == path && &f.name == name)
}

fn split(s: &str) -> Vec<String> {
    s.split('.').map(|x| x.to_string()).collect()
}

/// `super.`-prefix count and the remainder of an import string
fn supers(import: &str) -> (usize, String) {
    let mut rest = import;
    let mut n = 0;
    while let Some(r) = rest.strip_prefix("super.") {
        n += 1;
        rest = r;
    }
    (n, rest.to_string())
}

#[derive(Debug, PartialEq)]
enum Res {
    Unique(usize),
    Nothing,
    SuperTooDeep,
}

/// The stated lookup order: absolute dotted path, the caller's own module, function imports of
/// the caller's module, module-prefix imports (`super.` = parent of the importing module).
fn resolve(tree: &MTree, flat: &[Flat], caller_mod: &[String], name: &str) -> Res {
    // 1. absolute
    if let Some(i) = find_fn(flat, &split(name)) {
        return Res::Unique(i);
    }
    // 2. own module (the name may be a relative dotted path)
    let mut own = caller_mod.to_vec();
    own.extend(split(name));
    if let Some(i) = find_fn(flat, &own) {
        return Res::Unique(i);
    }
    let Some(m) = module_at(tree, caller_mod) else { return Res::Nothing };
    // 3. function imports: the import whose last segment is the name
    for imp in &m.imports {
        if let Some((_, last)) = imp.rsplit_once('.') {
            if last == name {
                let (up, rest) = supers(imp);
                if up > caller_mod.len() {
                    return Res::SuperTooDeep;
                }
                let mut full = caller_mod[..caller_mod.len() - up].to_vec();
                full.extend(split(&rest));
                return match find_fn(flat, &full) {
                    Some(i) => Res::Unique(i),
                    None => Res::Nothing,
                };
            }
        }
    }
    // 4. module-prefix imports: `prefix.suffix` where an import's last segment is `prefix`
    if let Some((prefix, suffix)) = name.split_once('.') {
        for imp in &m.imports {
            if let Some((_, last)) = imp.rsplit_once('.') {
                if last == prefix {
                    let (up, rest) = supers(imp);
                    if up > caller_mod.len() {
                        return Res::SuperTooDeep;
                    }
                    let mut full = caller_mod[..caller_mod.len() - up].to_vec();
                    full.extend(split(&rest));
                    full.extend(split(suffix));
                    return match find_fn(flat, &full) {
                        Some(i) => Res::Unique(i),
                        None => Res::Nothing,
                    };
                }
            }
        }
    }
    Res::Nothing
}

/// import string that designates `target` (a function or module path) from module `from`
fn relative_import(from: &[String], target: &[String]) -> String {
    let common = from.iter().zip(target.iter()).take_while(|(a, b)| a == b).count();
    let ups = from.len() - common;
    format!("{}{}", "super.".repeat(ups), target[common..].join("."))
}

// the pools contain names that spell the same text once the dots are dropped (a.b.f, ab.f, a.bf):
// qualified names must not be confused when the boundary between module and function moves
const FN_NAMES: [&str; 4] = ["f", "g", "h", "bf"];
// "mysuper" ends in the keyword that means "parent module" without being it
const MOD_NAMES: [&str; 5] = ["a", "b", "c", "ab", "mysuper"];

fn gen_tree(c: &mut Choices, depth: u32, is_root: bool, err: &mut Option<&'static str>, allow_err: bool) -> MTree {
    let mut fns: Vec<(String, usize)> = vec![];
    if is_root {
        fns.push(("main".into(), 0));
    }
    let nf = if is_root { c.draw(3) } else { 1 + c.draw(3) };
    for _ in 0..nf {
        let name = c.pick(&FN_NAMES).to_string();
        if fns.iter().any(|(n, _)| *n == name) {
            // a duplicate inside one module is an enumerated error class; keep it rarely
            if allow_err && err.is_none() && c.chance(20) {
                *err = Some("DuplicateName");
            } else {
                continue;
            }
        }
        fns.push((name, c.draw(3)));
    }
    let mut subs = vec![];
    if depth < 3 {
        let ns = c.draw(3);
        for _ in 0..ns {
            let mut name = c.pick(&MOD_NAMES).to_string();
            if allow_err && err.is_none() && c.chance(6) {
                name = if is_root && c.bool() { "std".to_string() } else { name };
                if name == "std" {
                    *err = Some("DuplicateModule");
                }
            }
            if allow_err && err.is_none() && c.chance(5) {
                // invalid module names are an enumerated error class
                name = c.pick(&["", "x.y", "super", "with space"]).to_string();
                *err = Some("BadModuleName");
            }
            if subs.iter().any(|s: &MTree| s.name == name) {
                if allow_err && err.is_none() && c.chance(20) {
                    *err = Some("DuplicateModule");
                } else {
                    continue;
                }
            }
            let mut sub = gen_tree(c, depth + 1, false, err, allow_err);
            sub.name = name;
            subs.push(sub);
        }
    }
    MTree { name: String::new(), fns, subs, imports: vec![] }
}

fn all_module_paths(t: &MTree, path: &mut Vec<String>, out: &mut Vec<Vec<String>>) {
    out.push(path.clone());
    for s in &t.subs {
        path.push(s.name.clone());
        all_module_paths(s, path, out);
        path.pop();
    }
}

/// None for paths below the second of two equally named modules (a planted DuplicateModule)
fn module_at_mut<'a>(t: &'a mut MTree, path: &[String]) -> Option<&'a mut MTree> {
    let mut cur = t;
    for p in path {
        cur = cur.subs.iter_mut().find(|s| &s.name == p)?;
    }
    Some(cur)
}

struct Built {
    tree: MTree,
    program: Program,
    expect: Expect,
    labels: Vec<String>,
}

fn build(bytes: &[u8]) -> Built {
    let mut c = Choices::new(bytes);
    let allow_err = c.chance(60);
    let mut err: Option<&'static str> = None;
    let mut tree = gen_tree(&mut c, 0, true, &mut err, allow_err);
    let mut labels = vec![];
    let mut flat = vec![];
    flatten(&tree, &mut vec![], &mut flat);
    let mut mods = vec![];
    all_module_paths(&tree, &mut vec![], &mut mods);
    // imports
    for mp in &mods {
        let ni = c.draw(3);
        for _ in 0..ni {
            if flat.is_empty() {
                break;
            }
            let imp = match c.weighted(&[10, 6, if allow_err { 1 } else { 0 }]) {
                0 => {
                    // function import
                    let t = c.pick(&flat).clone();
                    let mut full = t.path.clone();
                    full.push(t.name.clone());
                    relative_import(mp, &full)
                }
                1 => {
                    // module import (for prefix.name calls)
                    let t = c.pick(&mods).clone();
                    if t.is_empty() {
                        continue;
                    }
                    relative_import(mp, &t)
                }
                _ => "nodots".to_string(),
            };
            if imp.ends_with('.') || imp.is_empty() {
                continue; // the target is an ancestor of the importing module: not expressible
            }
            let mut plant_bad_import = false;
            if !imp.contains('.') {
                if err.is_none() && imp == "nodots" {
                    plant_bad_import = true;
                } else {
                    continue; // a single-segment relative path cannot be written as an import
                }
            }
            let Some(m) = module_at_mut(&mut tree, mp) else { continue };
            if plant_bad_import {
                err = Some("BadImport");
                m.imports.push(imp);
                continue;
            }
            let last = imp.rsplit_once('.').map(|x| x.1.to_string()).unwrap_or_default();
            if m.imports.iter().any(|i| i.rsplit_once('.').map(|x| x.1) == Some(last.as_str())) {
                if allow_err && err.is_none() && c.chance(40) {
                    err = Some("AmbigousImport");
                } else {
                    continue;
                }
            }
            if imp.starts_with("super.") {
                labels.push(format!("super_x{}", supers(&imp).0.min(3)));
            }
            m.imports.push(imp);
        }
    }
    // bodies: log(tag), log(params), sentinel, calls, log(sentinel), return tag
    let mut funcs: Vec<FuncDef> = vec![];
    let mut unresolved = false;
    for (i, f) in flat.iter().enumerate() {
        let params: Vec<String> = (0..f.arity).map(|k| format!("p{}", k)).collect();
        let tag = 100 + i as i64;
        let mut body = vec![log_stmt(Expr::Int(tag))];
        for p in &params {
            body.push(log_stmt(Expr::Var(p.clone())));
        }
        body.push(Stmt::SetVar("sentinel".into(), Expr::Int(tag * 10)));
        let ncalls = c.draw(3);
        for k in 0..ncalls {
            // candidate spellings for a target j > i
            let later: Vec<usize> = (i + 1..flat.len()).collect();
            let spelled: String = if !later.is_empty() && !c.chance(if allow_err { 10 } else { 0 }) {
                let j = *c.pick(&later);
                let t = &flat[j];
                let mut full = t.path.clone();
                full.push(t.name.clone());
                // (below a planted duplicate module the path may be ambiguous: any module will do,
                // the tree is expected to be rejected anyway)
                let m = module_at(&tree, &f.path).unwrap_or(&tree);
                let mut options: Vec<String> = vec![full.join(".")];
                if t.path == f.path {
                    options.push(t.name.clone());
                }
                if t.path.len() > f.path.len() && t.path[..f.path.len()] == f.path[..] {
                    options.push(full[f.path.len()..].join("."));
                }
                for imp in &m.imports {
                    if let Some((_, last)) = imp.rsplit_once('.') {
                        options.push(last.to_string()); // as a function import
                        options.push(format!("{}.{}", last, t.name)); // as a module-prefix import
                    }
                }
                c.pick(&options).clone()
            } else if c.chance(80) {
                "nowhere.zz".to_string()
            } else {
                // a near miss: a name put together from the names in use, whether or not it
                // designates anything (the model decides; names that extend an import alias, such
                // as `bf` next to an import ending in `.b`, must not resolve through that import)
                let mut segs: Vec<String> = (0..c.draw(3)).map(|_| c.pick(&MOD_NAMES).to_string()).collect();
                segs.push(c.pick(&FN_NAMES).to_string());
                segs.join(".")
            };
            match resolve(&tree, &flat, &f.path, &spelled) {
                Res::Unique(j) if j > i => {
                    let how = if spelled.contains('.') && find_fn(&flat, &split(&spelled)) == Some(j) {
                        "absolute"
                    } else if { let mut own = f.path.clone(); own.extend(split(&spelled)); find_fn(&flat, &own) == Some(j) } {
                        "own_module"
                    } else if spelled.contains('.') {
                        "module_prefix_import"
                    } else {
                        "function_import"
                    };
                    labels.push(format!("via_{}", how));
                    if find_fn(&flat, &split(&spelled)).is_some() && flat.iter().filter(|o| o.name == flat[j].name).count() > 1 {
                        labels.push("same_name_elsewhere".into());
                    }
                    let args: Vec<Expr> = (0..flat[j].arity).map(|a| Expr::Int(tag * 100 + (k * 10 + a) as i64)).collect();
                    let call = if c.bool() { Expr::Call(spelled.clone(), j, args) } else { Expr::DynCall(Box::new(Expr::FuncRef(spelled.clone(), j)), args) };
                    body.push(log_stmt(call));
                }
                Res::Unique(_) => {} // would recurse: not generated
                Res::Nothing | Res::SuperTooDeep => {
                    if allow_err && err.is_none() || unresolved {
                        unresolved = true;
                        err = err.or(Some("InvalidJump"));
                        body.push(log_stmt(Expr::Call(spelled.clone(), usize::MAX, vec![])));
                    }
                }
            }
        }
        body.push(log_stmt(Expr::Var("sentinel".into())));
        body.push(Stmt::Return(Expr::Int(tag)));
        funcs.push(FuncDef { id: i, name: f.name.clone(), module: f.path.clone(), params, body });
    }
    // Program module structure mirrors the tree
    fn to_def(t: &MTree, flat: &[Flat], path: &mut Vec<String>, next: &mut usize) -> ModuleDef {
        let mut d = ModuleDef { name: t.name.clone(), functions: vec![], submodules: vec![], imports: t.imports.clone() };
        for _ in &t.fns {
            d.functions.push(*next);
            *next += 1;
        }
        for s in &t.subs {
            path.push(s.name.clone());
            d.submodules.push(to_def(s, flat, path, next));
            path.pop();
        }
        d
    }
    let mut next = 0;
    let root = to_def(&tree, &flat, &mut vec![], &mut next);
    let program = Program { funcs, root, globals: vec!["sink_".into()] };
    let expect = match err {
        Some(e) => Expect::Error(e),
        None => Expect::Compiles,
    };
    Built { tree, program, expect, labels }
}

fn error_class(e: &CE) -> &'static str {
    match e {
        CE::DuplicateName(_) => "DuplicateName",
        CE::DuplicateModule(_) => "DuplicateModule",
        CE::BadImport(_) => "BadImport",
        CE::AmbigousImport(_) => "AmbigousImport",
        CE::InvalidJump { .. } => "InvalidJump",
        CE::BadFunctionName(_) => "BadFunctionName",
        CE::SuperLimitReached => "SuperLimitReached",
        CE::RecursionLimitReached(_) => "RecursionLimitReached",
        CE::NoMain => "NoMain",
        _ => "other",
    }
}

impl Property for C08 {
    fn id(&self) -> &'static str {
        "C08"
    }
    fn rule(&self) -> &'static str {
        "case = module tree (depth <=3, module names from {a,b,c,ab,mysuper}, function names from {f,g,h,bf} so the same name occurs in many modules, some qualified names spell the same text once the dots are dropped (a.b.f / ab.f / a.bf) and one module name ends in the keyword `super`; 0-2 params) with 0-2 imports per module (function imports and module imports written relative to the importing module, with as many super. as needed) and 0-2 call sites per function spelled as absolute path / bare name / relative dotted path / function import / module-prefix import, static or via function value + dynamic call; in a labelled share one enumerated error is planted (duplicate function in a module, duplicate module, root module named std, import without a dot, ambiguous imports, unresolvable call - a far name or a near miss put together from the names in use). Oracle: an independent resolver implementing the stated lookup order decides every call site; the reference interpreter runs with the model's targets, the VM with the spelled names: host logs (body tags, parameters in declaration order, caller sentinels, return values) must agree; planted errors must be compile errors of the named class. non-trivial = >=2 functions share a bare name in different modules and >=1 call was resolved by own-module / import / module-prefix lookup, or an enumerated error was planted; distinct by hash of the tree"
    }
    fn assumptions(&self) -> Vec<String> {
        vec![
            "call graphs are acyclic (a spelling that the model resolves to an earlier function is not generated)".into(),
            "imports are relative to the importing module, super. = its parent (as the documentation comment and tests of the crate show)".into(),
            "unused imports of missing targets and malformed-but-dotted imports are not generated (their status is not stated)".into(),
        ]
    }
    fn max_len(&self) -> usize {
        700
    }
    fn quick_cases(&self) -> u64 {
        400_000
    }
    fn states_termination(&self) -> bool {
        true
    }
    fn describe(&self, bytes: &[u8]) -> J {
        let b = build(bytes);
        json!({"expect": format!("{:?}", b.expect), "program": program_json(&b.program)})
    }
    fn run(&self, bytes: &[u8], _tier: Tier) -> CaseOut {
        let b = build(bytes);
        let fp = fnv64(format!("{:?}", b.tree).as_bytes());
        let mut labels = b.labels.clone();
        labels.sort();
        labels.dedup();
        let mk = |clause: &str, d: String| CaseOut {
            verdict: Verdict::Fail(Failure::new(clause, &format!("c08:{}", clause), d)),
            nontrivial: false,
            labels: vec![],
            fingerprint: fp,
            execs: 1,
        };
        let compiled = compile_program(&b.program);
        match (&b.expect, compiled) {
            (Expect::Error(class), Ok(_)) => mk(&format!("must_be_compile_error_{}", class), format!("a module tree with a planted {} compiled", class)),
            (Expect::Error(class), Err(e)) => {
                labels.push(format!("error:{}", class));
                let got = error_class(&e.payload);
                // several errors can be present at once only for the unresolved-call class
                // (there is no dedicated payload for an invalid module name: any error will do)
                if got != *class && !(*class == "InvalidJump" && got == "SuperLimitReached") && *class != "BadModuleName" {
                    return mk("error_class", format!("planted {}, compiler reported {} ({})", class, got, e.payload));
                }
                CaseOut { verdict: Verdict::Pass, nontrivial: true, labels, fingerprint: fp, execs: 1 }
            }
            (Expect::Compiles, Err(e)) => mk(&format!("valid_tree_rejected_{}", error_class(&e.payload)), format!("every call site resolves uniquely and all names are valid, but: {}", e)),
            (Expect::Compiles, Ok(prog)) => {
                let r = run_reference(&b.program, 60_000);
                if let Err(crate::refsem::ErrKind::Undefined(w)) = &r.outcome {
                    return CaseOut { verdict: Verdict::Discard(w), nontrivial: false, labels, fingerprint: fp, execs: 0 };
                }
                let obs = run_vm(&prog, &b.program.globals, &RunCfg::default());
                let nontrivial = labels.iter().any(|l| l == "same_name_elsewhere") && labels.iter().any(|l| l == "via_own_module" || l == "via_function_import" || l == "via_module_prefix_import");
                match compare(&obs, &r) {
                    None => CaseOut { verdict: Verdict::Pass, nontrivial, labels, fingerprint: fp, execs: 1 },
                    Some((clause, detail)) => mk(&format!("call_reaches_designated_function_{}", clause), detail),
                }
            }
        }
    }
    fn label_floors(&self) -> Vec<(&'static str, f64)> {
        vec![("via_function_import", 0.03), ("via_module_prefix_import", 0.02), ("via_own_module", 0.05), ("super_x1", 0.03), ("same_name_elsewhere", 0.05)]
    }
}
