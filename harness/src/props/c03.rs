//! C03 — the instruction budget bounds every run, so every run terminates.
//!
//! Programs without the termination-by-construction rule (while(1), unbounded recursion, huge
//! repeat counts, looping callbacks handed to std.sorted_by_key / min_by_key / max_by_key / map /
//! filter / any and to the re-entering natives call0 / call1, nested up to 3 native->script
//! levels; the natives reached by a CallNative card or as function values through a dynamic call)
//! plus ordinary generated programs, each run under a set of budgets.
//! Oracle: an independent per-dispatch counter (hook) never exceeds the budget; a run that does
//! not finish reports Timeout; and metamorphic: the run with a large budget defines k (its
//! instruction count) — every budget >= k gives the identical observation, every budget < k gives
//! Timeout with a host log that is a prefix of the complete run's log.

use crate::choice::{fnv64, Choices};
use crate::engine::{CaseOut, Failure, Property, Tier, Verdict};
use crate::genprog::{gen_program, log_stmt, GenCfg};
use crate::ir::*;
use crate::observe::*;
use serde_json::{json, Value as J};
use std::rc::Rc;

pub struct C03;

fn int(i: i64) -> Expr {
    Expr::Int(i)
}
fn var(n: &str) -> Expr {
    Expr::Var(n.into())
}
fn bin(op: BinOp, a: Expr, b: Expr) -> Expr {
    Expr::Bin(op, Box::new(a), Box::new(b))
}
fn closure(id: usize, params: &[&str], body: Vec<Stmt>) -> Expr {
    Expr::Closure(Rc::new(ClosureDef { id, params: params.iter().map(|s| s.to_string()).collect(), body }))
}
fn std_call(name: &str, args: Vec<Expr>) -> Expr {
    Expr::Call(format!("std.{}", name), usize::MAX, args)
}
/// a native reached by a CallNative card, or as a function value through a dynamic call
fn native_call(name: &str, args: Vec<Expr>, dynamic: bool) -> Expr {
    if dynamic {
        Expr::DynCall(Box::new(Expr::NativeRef(name.into())), args)
    } else {
        Expr::CallNative(name.into(), args)
    }
}

/// a loop that runs `n` times (None = forever) and bumps the global `ticks`
fn spin(n: Option<i64>, tag: i64) -> Vec<Stmt> {
    let bump = Stmt::SetGlobal("ticks".into(), bin(BinOp::Add, var("ticks"), int(1)));
    match n {
        None => vec![Stmt::While(int(1), Box::new(bump))],
        Some(n) => vec![Stmt::Repeat(int(n), None, Box::new(bump)), log_stmt(int(tag))],
    }
}

fn program(main_body: Vec<Stmt>, extra: Vec<FuncDef>) -> Program {
    let mut body = vec![Stmt::SetGlobal("ticks".into(), int(0))];
    body.extend(main_body);
    let mut funcs = vec![FuncDef { id: 0, name: "main".into(), module: vec![], params: vec![], body }];
    funcs.extend(extra);
    let n = funcs.len();
    Program {
        funcs,
        root: ModuleDef { name: String::new(), functions: (0..n).collect(), submodules: vec![], imports: vec![] },
        globals: vec!["ticks".into(), "r".into(), "sink_".into()],
    }
}

fn template(c: &mut Choices) -> (String, Program, u32) {
    // loop length of the innermost work: finite (metamorphic part) or infinite
    let n = if c.chance(96) { None } else { Some(c.draw(40) as i64) };
    let inf = if n.is_none() { "inf" } else { "fin" };
    let table = Expr::Array((0..1 + c.draw(5)).map(|i| int(10 - i as i64)).collect());
    match c.draw(9) {
        0 => (format!("while_{}", inf), program(spin(n, 1), vec![]), 0),
        1 => {
            let f = FuncDef {
                id: 1,
                name: "f".into(),
                module: vec![],
                params: vec!["d".into()],
                body: vec![
                    Stmt::SetGlobal("ticks".into(), bin(BinOp::Add, var("ticks"), int(1))),
                    match n {
                        None => Stmt::Comment("unbounded".into()),
                        Some(n) => Stmt::IfTrue(bin(BinOp::LessOrEq, int(n.min(60)), var("d")), Box::new(Stmt::Return(var("d")))),
                    },
                    Stmt::Return(Expr::Call("f".into(), 1, vec![bin(BinOp::Add, var("d"), int(1))])),
                ],
            };
            (format!("recursion_{}", inf), program(vec![Stmt::SetGlobal("r".into(), Expr::Call("f".into(), 1, vec![int(0)]))], vec![f]), 0)
        }
        2 => {
            let count = if n.is_none() { 1_000_000_000 } else { n.unwrap() };
            (format!("repeat_{}", inf), program(vec![Stmt::Repeat(int(count), Some("i".into()), Box::new(Stmt::SetGlobal("r".into(), var("i"))))], vec![]), 0)
        }
        3 | 4 | 5 => {
            // key function with its own loop, handed to a std function that re-enters the VM
            let which = *c.pick(&["sorted_by_key", "min_by_key", "max_by_key"]);
            let mut kb = spin(n, 2);
            kb.push(Stmt::Return(var("v")));
            let key = closure(0, &["k", "v"], kb);
            // the first supplied argument binds to the last declared parameter (key_function)
            // the library function, or the native under it called directly / as a function value
            let (style, call) = match c.draw(3) {
                0 => ("std", std_call(which, vec![key, var("t")])),
                s => {
                    let native = match which {
                        "sorted_by_key" => "__sort",
                        "min_by_key" => "__min",
                        _ => "__max",
                    };
                    (if s == 1 { "native" } else { "dynnative" }, native_call(native, vec![var("t"), key], s == 2))
                }
            };
            let body = vec![Stmt::SetVar("t".into(), table), Stmt::SetGlobal("r".into(), call)];
            (format!("{}_{}_{}", style, which, inf), program(body, vec![]), 1)
        }
        6 => {
            // map / filter / any run the callback through DynamicCall (same interpreter entry)
            let which = *c.pick(&["map", "filter", "any"]);
            let mut kb = spin(n, 3);
            kb.push(Stmt::Return(int(0)));
            // the library pushes (i, v, k): a three-parameter callback consumes them all
            let cb = closure(0, &["k", "v", "i"], kb);
            let body = vec![Stmt::SetVar("t".into(), table), Stmt::SetGlobal("r".into(), std_call(which, vec![cb, var("t")]))];
            (format!("std_{}_{}", which, inf), program(body, vec![]), 0)
        }
        7 => {
            // native -> script -> native -> script
            let mut inner = spin(n, 4);
            inner.push(Stmt::Return(int(7)));
            let inner_c = closure(1, &[], inner);
            let (d1, d2) = (c.chance(100), c.chance(100));
            let outer = closure(0, &[], vec![Stmt::Return(native_call("call0", vec![inner_c], d1))]);
            (format!("call0_nested{}_{}", if d1 || d2 { "_dyn" } else { "" }, inf), program(vec![Stmt::SetGlobal("r".into(), native_call("call0", vec![outer], d2))], vec![]), 2)
        }
        _ => {
            // three levels: call1 -> sorted_by_key -> key function calling call0 -> spinning closure
            let mut leaf = spin(n, 5);
            leaf.push(Stmt::Return(int(1)));
            let leaf_c = closure(2, &[], leaf);
            let (d1, d2, d3) = (c.chance(80), c.chance(80), c.chance(80));
            let key = closure(1, &["k", "v"], vec![Stmt::Return(bin(BinOp::Add, var("v"), native_call("call0", vec![leaf_c], d1)))]);
            let sort = if d2 { native_call("__sort", vec![var("t"), key], true) } else { std_call("sorted_by_key", vec![key, var("t")]) };
            let outer = closure(0, &["x"], vec![Stmt::SetVar("t".into(), table), Stmt::Return(sort)]);
            (format!("three_levels{}_{}", if d1 || d2 || d3 { "_dyn" } else { "" }, inf), program(vec![Stmt::SetGlobal("r".into(), native_call("call1", vec![outer, int(0)], d3))], vec![]), 3)
        }
    }
}

fn decode(bytes: &[u8]) -> (String, Program, u32, Vec<u64>) {
    let mut c = Choices::new(bytes);
    let (name, p, depth) = if c.chance(150) {
        template(&mut c)
    } else {
        let mut cfg = GenCfg::default();
        cfg.reentry = 4;
        cfg.errors = 0;
        ("generated".to_string(), gen_program(&mut c, &cfg), 0)
    };
    let mut budgets: Vec<u64> = vec![];
    for _ in 0..3 {
        budgets.push(1 + c.draw(64) as u64);
    }
    budgets.push(1 + c.draw(20_000) as u64);
    // fractions of the complete run's length are added at run time (k-1, k, k+1, k/2)
    (name, p, depth, budgets)
}

fn is_timeout(kind: &str) -> bool {
    // Timeout, or TaskFailure(name:...:Timeout) chains when the budget ran out inside a callback
    kind.trim_end_matches(')').ends_with("Timeout")
}

fn run_counted(prog: &cao_lang::prelude::CaoCompiledProgram, globals: &[String], budget: u64) -> (Obs, u64, u64) {
    let cfg = RunCfg { max_instr: budget, ..RunCfg::default() };
    let mut vm = new_vm(&cfg);
    vm.verif_instr_executed = 0;
    let obs = run_on(&mut vm, prog, globals);
    (obs, vm.verif_instr_executed, vm.auxiliary_data.reentries)
}

impl Property for C03 {
    fn id(&self) -> &'static str {
        "C03"
    }
    fn rule(&self) -> &'static str {
        "case = (program, budget set): program from 9 templates with a finite-or-infinite innermost loop (while(1), recursion, repeat 10^9, looping key functions under std.sorted_by_key/min_by_key/max_by_key, looping callbacks under std.map/filter/any, call0->call0 nesting, call1->sorted_by_key->call0 three native levels; each native reached through the library function, a CallNative card, or a dynamic call of the native as a function value) or a generated well-scoped program with re-entering natives; budgets = 3 draws from 1..64, one from 1..20000, and k-1, k, k+1, k/2 around the complete run's instruction count k. Oracles per run: hook counter <= budget; for runs of a finishing program: budget >= k => observation identical to the complete run, budget < k => Timeout (possibly wrapped by the natives it crossed) and host log a prefix of the complete log; the large-budget run of a never-finishing program must itself be Timeout, CallStackOverflow or Stackoverflow. non-trivial = a run re-entered the interpreter through a native and used >= 50% of its budget, or was cut by Timeout; distinct by hash of (program, budgets)"
    }
    fn assumptions(&self) -> Vec<String> {
        vec![
            "instruction counting uses the verif-hooks dispatch counter, incremented independently of the budget field".into(),
            "no collection runs (256 MiB limit)".into(),
        ]
    }
    fn max_len(&self) -> usize {
        1600
    }
    fn quick_cases(&self) -> u64 {
        120_000
    }
    fn states_termination(&self) -> bool {
        true
    }
    fn case_timeout(&self) -> std::time::Duration {
        std::time::Duration::from_secs(30)
    }
    fn describe(&self, bytes: &[u8]) -> J {
        let (name, p, depth, budgets) = decode(bytes);
        json!({"template": name, "native_depth": depth, "budgets": budgets, "program": program_json(&p)})
    }
    fn run(&self, bytes: &[u8], _tier: Tier) -> CaseOut {
        let (name, p, depth, mut budgets) = decode(bytes);
        let fp = fnv64(format!("{:?}{:?}", p, budgets).as_bytes());
        let mut labels = vec![format!("tpl:{}", name), format!("native_depth_{}", depth)];
        let mk = |clause: &str, d: String| CaseOut {
            verdict: Verdict::Fail(Failure::new(clause, &format!("c03:{}", clause), d)),
            nontrivial: false,
            labels: vec![],
            fingerprint: fp,
            execs: 1,
        };
        if name == "generated" {
            // generated programs must be inside the defined semantics (no self-referencing tables,
            // no loops that grow what they iterate): judged by the reference interpreter
            let r = crate::refsem::run_reference(&p, 40_000);
            if let Err(crate::refsem::ErrKind::Undefined(w)) = &r.outcome {
                return CaseOut { verdict: Verdict::Discard(w), nontrivial: false, labels, fingerprint: fp, execs: 0 };
            }
        }
        let prog = match compile_program(&p) {
            Ok(x) => x,
            Err(e) => return mk("compiles", format!("{}", e)),
        };
        const BIG: u64 = 300_000;
        let (full, k, _) = run_counted(&prog, &p.globals, BIG);
        let mut execs = 1;
        if k > BIG {
            return mk("budget_bounds_instructions", format!("budget {} but {} instructions were dispatched", BIG, k));
        }
        let finishes = match &full.outcome {
            Ok(()) => true,
            Err(kind) => !is_timeout(kind),
        };
        if name.ends_with("_inf") {
            let ok = match &full.outcome {
                Err(kind) => is_timeout(kind) || kind.contains("CallStackOverflow") || kind.contains("Stackoverflow"),
                Ok(()) => false,
            };
            if !ok {
                return mk("nonterminating_program_times_out", format!("{}: outcome {:?} after {} instructions", name, full.outcome, k));
            }
        }
        if finishes {
            labels.push("finishes".into());
            for b in [k.saturating_sub(1), k, k + 1, k / 2] {
                if b >= 1 {
                    budgets.push(b);
                }
            }
        }
        let mut nontrivial = false;
        for b in budgets {
            let (obs, used, reentries) = run_counted(&prog, &p.globals, b);
            execs += 1;
            if used > b {
                return mk("budget_bounds_instructions", format!("{}: budget {} but {} instructions were dispatched (outcome {:?})", name, b, used, obs.outcome));
            }
            let timed_out = matches!(&obs.outcome, Err(kind) if is_timeout(kind));
            if timed_out {
                labels.push("timeout".into());
                nontrivial = true;
                if reentries > 0 || depth > 0 {
                    labels.push("timeout_with_reentry".into());
                }
            }
            if (reentries > 0 || depth > 0) && used * 2 >= b {
                nontrivial = true;
            }
            if finishes {
                if b >= k {
                    if obs.outcome != full.outcome || log_eq(&obs.log, &full.log).is_some() || obs.globals.iter().any(|(n, v)| !full.globals.get(n).map(|w| w.obs_eq(v)).unwrap_or(false)) {
                        return mk(
                            "sufficient_budget_same_result",
                            format!("{}: the complete run takes {} instructions; with budget {} the outcome is {:?} (complete: {:?}), log {:?}", name, k, b, obs.outcome, full.outcome, log_eq(&obs.log, &full.log)),
                        );
                    }
                    if b == k {
                        labels.push("completes_exactly_at_budget".into());
                    }
                } else {
                    if !timed_out {
                        return mk("insufficient_budget_times_out", format!("{}: needs {} instructions, budget {} gave {:?} after {} instructions", name, k, b, obs.outcome, used));
                    }
                    let prefix_ok = obs.log.len() <= full.log.len() && log_eq(&obs.log, &full.log[..obs.log.len()]).is_none();
                    if !prefix_ok {
                        return mk("timeout_prefix_consistent", format!("{}: host log under budget {} is not a prefix of the complete run's log", name, b));
                    }
                }
            } else if !timed_out && !matches!(&obs.outcome, Err(kind) if kind.contains("CallStackOverflow") || kind.contains("Stackoverflow")) {
                // a never-finishing program under a smaller budget can only time out (or exhaust a stack)
                return mk("nonterminating_program_times_out", format!("{}: budget {} gave {:?}", name, b, obs.outcome));
            }
        }
        CaseOut { verdict: Verdict::Pass, nontrivial, labels, fingerprint: fp, execs }
    }
    fn label_floors(&self) -> Vec<(&'static str, f64)> {
        vec![("timeout", 0.3), ("timeout_with_reentry", 0.1), ("native_depth_3", 0.02), ("finishes", 0.2)]
    }
}
