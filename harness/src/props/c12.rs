//! C12 — the hash map is a faithful map.
//!
//! Histories of insert/get/get_mut/contains/remove/entry/reserve/clear/clone/iter on
//! `CaoHashMap<K, V, A>` with a key type whose hash bytes are chosen by the generator (collision
//! groups per capacity of the growth sequence, wrap-around homes, equal-hash twins, the reserved
//! hash 0), drop-counted keys and values, and three allocator modes (system allocator, counting
//! allocator, fail-at-n sweep over every allocation of the history).
//! Oracle: std::collections::HashMap after every operation.

use crate::choice::{fnv64, Choices};
use crate::engine::{CaseOut, Failure, Property, Tier, Verdict};
use crate::testalloc::*;
use cao_lang::collections::hash_map::CaoHashMap;
use cao_lang::verif::alloc::{Allocator, SysAllocator};
use serde_json::{json, Value as J};
use std::collections::{BTreeSet, HashMap};
use std::hash::{Hash, Hasher};
use std::sync::OnceLock;

pub struct C12;

pub fn fnv32(bytes: &[u8]) -> u64 {
    let mut h: u64 = 2166136261;
    for b in bytes {
        h ^= *b as u64;
        h &= 0xffff_ffff;
        h = h.wrapping_mul(16777619);
    }
    h & 0xffff_ffff
}

pub fn home(hash: u64, cap: usize) -> usize {
    (hash.wrapping_mul(2654435769) as usize) % cap
}

const CAPS: [usize; 9] = [3, 4, 6, 9, 13, 19, 28, 42, 63];
/// bytes `cc 24 31 c4` hash to the reserved value 0 under the map's FNV-1a-32
pub const ZERO_HASH_KEY: u32 = 0xc43124cc;

struct Pool {
    /// groups[cap_index][slot_kind] = keys whose home at that capacity is the chosen slot
    groups: Vec<Vec<Vec<u32>>>,
}

fn pool() -> &'static Pool {
    static P: OnceLock<Pool> = OnceLock::new();
    P.get_or_init(|| {
        let mut groups = vec![];
        for cap in CAPS {
            // the multiplier is divisible by 3, so for capacities that are multiples of 3 only
            // every third slot is a home: pick the slots from the homes that actually occur
            let mut by_home: Vec<Vec<u32>> = vec![vec![]; cap];
            for i in 1u32..20000 {
                let hm = home(fnv32(&i.to_le_bytes()), cap);
                if by_home[hm].len() < 6 {
                    by_home[hm].push(i);
                }
            }
            let occupied: Vec<usize> = (0..cap).filter(|s| by_home[*s].len() >= 6).collect();
            let slots = [*occupied.last().unwrap(), occupied[0], occupied[occupied.len() / 2]];
            groups.push(slots.iter().map(|s| by_home[*s].clone()).collect());
        }
        Pool { groups }
    })
}

type KeyId = (u32, u8);

#[derive(Debug)]
struct K {
    id: KeyId,
    inst: usize,
    ledger: LedgerRef,
}

impl K {
    fn new(id: KeyId, ledger: &LedgerRef) -> K {
        K { id, inst: ledger_new_instance(ledger), ledger: ledger.clone() }
    }
}
impl Clone for K {
    fn clone(&self) -> K {
        K::new(self.id, &self.ledger)
    }
}
impl PartialEq for K {
    fn eq(&self, o: &K) -> bool {
        self.id == o.id
    }
}
impl Eq for K {}
impl Hash for K {
    fn hash<H: Hasher>(&self, state: &mut H) {
        // twins share the hash bytes of their base key
        state.write(&self.id.0.to_le_bytes());
    }
}
impl Drop for K {
    fn drop(&mut self) {
        ledger_drop(&self.ledger, self.inst);
    }
}

#[derive(Debug)]
struct V {
    v: i64,
    inst: usize,
    ledger: LedgerRef,
}
impl V {
    fn new(v: i64, ledger: &LedgerRef) -> V {
        V { v, inst: ledger_new_instance(ledger), ledger: ledger.clone() }
    }
}
impl Clone for V {
    fn clone(&self) -> V {
        V::new(self.v, &self.ledger)
    }
}
impl Drop for V {
    fn drop(&mut self) {
        ledger_drop(&self.ledger, self.inst);
    }
}

#[derive(Debug, Clone)]
enum Op {
    Insert(KeyId, i64),
    Get(KeyId),
    GetMutWrite(KeyId, i64),
    Contains(KeyId),
    Remove(KeyId),
    Entry(KeyId, i64),
    Reserve(usize),
    Clear,
    Clone(bool),
    Iter,
}

#[derive(Debug, Clone)]
struct Case {
    mode: u8, // 0 sys allocator, 1 counting allocator, 2 fail-at-n sweep
    cap0: usize,
    ops: Vec<Op>,
}

fn gen_key(c: &mut Choices) -> KeyId {
    match c.weighted(&[40, 35, 10, 5, 10]) {
        0 => (1 + c.draw(12) as u32, 0),
        1 => {
            let p = pool();
            let g = &p.groups[c.draw(CAPS.len())][c.draw(3)];
            (g[c.draw(g.len())], 0)
        }
        2 => (1 + c.draw(12) as u32, 1),
        3 => (ZERO_HASH_KEY, 0),
        _ => (1 + c.draw(4096) as u32, 0),
    }
}

fn decode(bytes: &[u8]) -> Case {
    let mut c = Choices::new(bytes);
    let mode = c.weighted(&[3, 3, 2]) as u8;
    let cap0 = match c.draw(8) {
        0 => 0,
        1 => 1,
        2 => 2,
        3 => 3,
        4 => 8,
        _ => c.draw(41),
    };
    let n = c.draw(201);
    let mut ops = vec![];
    let mut val = 0i64;
    for _ in 0..n {
        if c.exhausted() {
            break;
        }
        val += 1;
        let op = match c.weighted(&[30, 8, 5, 4, 18, 12, 3, 1, 2, 3]) {
            0 => Op::Insert(gen_key(&mut c), val),
            1 => Op::Get(gen_key(&mut c)),
            2 => Op::GetMutWrite(gen_key(&mut c), 1000),
            3 => Op::Contains(gen_key(&mut c)),
            4 => Op::Remove(gen_key(&mut c)),
            5 => Op::Entry(gen_key(&mut c), val),
            6 => Op::Reserve(c.draw(20)),
            7 => Op::Clear,
            8 => Op::Clone(c.bool()),
            _ => Op::Iter,
        };
        ops.push(op);
    }
    Case { mode, cap0, ops }
}

#[derive(Default)]
struct Obs {
    remove_collide: bool,
    entry_grow: bool,
    growth_steps: u32,
    injected: bool,
    hash0: bool,
    twin_pair: bool,
    clone_diverge: bool,
    allocs: u64,
}

fn full_check<A: Allocator>(
    map: &CaoHashMap<K, V, A>,
    model: &HashMap<KeyId, i64>,
    ever: &BTreeSet<KeyId>,
    ledger: &LedgerRef,
) -> Result<(), (String, String)> {
    if map.len() != model.len() {
        return Err(("len".into(), format!("len {} expected {}", map.len(), model.len())));
    }
    if map.is_empty() != model.is_empty() {
        return Err(("len".into(), "is_empty mismatch".into()));
    }
    for id in ever {
        let probe = K::new(*id, ledger);
        let got = map.get(&probe).map(|v| v.v);
        let exp = model.get(id).copied();
        if got != exp {
            let clause = if exp.is_some() { "present_key_found" } else { "absent_key_not_found" };
            return Err((clause.into(), format!("get({:?}) = {:?} expected {:?}", id, got, exp)));
        }
        if map.contains(&probe) != exp.is_some() {
            return Err(("contains".into(), format!("contains({:?}) != {}", id, exp.is_some())));
        }
    }
    let mut seen: BTreeSet<KeyId> = BTreeSet::new();
    let mut n = 0;
    for (k, v) in map.iter() {
        n += 1;
        if !seen.insert(k.id) {
            return Err(("iter_each_once".into(), format!("iter yields key {:?} twice", k.id)));
        }
        match model.get(&k.id) {
            Some(x) if *x == v.v => {}
            other => return Err(("iter_entries".into(), format!("iter yields ({:?},{}) model has {:?}", k.id, v.v, other))),
        }
    }
    if n != model.len() {
        return Err(("iter_each_once".into(), format!("iter yields {} entries expected {}", n, model.len())));
    }
    if let Some(i) = ledger.borrow().double_drop {
        return Err(("drop_exactly_once".into(), format!("instance #{} dropped twice", i)));
    }
    Ok(())
}

fn run_history<A: Allocator + Clone>(case: &Case, alloc: A, inj: Option<&TestAlloc>, obs: &mut Obs) -> Option<Failure> {
    let ledger: LedgerRef = Default::default();
    let mut model: HashMap<KeyId, i64> = HashMap::new();
    let mut ever: BTreeSet<KeyId> = BTreeSet::new();
    let failed_so_far = |inj: Option<&TestAlloc>| inj.map(|a| a.st.borrow().failed).unwrap_or(0);

    let mk = |step: i64, op: &str, clause: &str, detail: String| {
        Some(Failure::new(clause, &format!("hm:{}:{}", op, clause), format!("step {} ({}): {}", step, op, detail)))
    };

    let mut map: CaoHashMap<K, V, A> = match CaoHashMap::with_capacity_in(case.cap0, alloc.clone()) {
        Ok(m) => m,
        Err(_) => {
            if failed_so_far(inj) > 0 {
                obs.injected = true;
                return None; // construction failed cleanly under an injected failure
            }
            return mk(-1, "with_capacity_in", "alloc_error_without_failure", "with_capacity_in failed".into());
        }
    };
    let mut result: Option<Failure> = None;
    'ops: for (step, op) in case.ops.iter().enumerate() {
        let step = step as i64;
        let cap_before = map.capacity();
        let fails_before = failed_so_far(inj);
        let opname;
        match op {
            Op::Insert(id, v) => {
                opname = "insert";
                ever.insert(*id);
                if id.0 == ZERO_HASH_KEY {
                    obs.hash0 = true;
                }
                if id.1 == 1 && model.contains_key(&(id.0, 0)) || id.1 == 0 && model.contains_key(&(id.0, 1)) {
                    obs.twin_pair = true;
                }
                let r = map.insert(K::new(*id, &ledger), V::new(*v, &ledger));
                match r {
                    Ok(h) => {
                        let exp = fnv32(&id.0.to_le_bytes());
                        // the reserved hash may be remapped by the implementation
                        if h != exp && exp != 0 {
                            result = mk(step, opname, "insert_returns_hash", format!("returned hash {} expected {}", h, exp));
                            break 'ops;
                        }
                        model.insert(*id, *v);
                    }
                    Err(e) => {
                        if failed_so_far(inj) == fails_before {
                            result = mk(step, opname, "alloc_error_without_failure", format!("insert failed: {}", e));
                            break 'ops;
                        }
                        // failed allocation: the new key may or may not have been stored, everything
                        // else must be intact. Sync the model with what the map says about this key.
                        let probe = K::new(*id, &ledger);
                        match map.get(&probe).map(|x| x.v) {
                            Some(x) if x == *v => {
                                model.insert(*id, *v);
                            }
                            other => {
                                if other != model.get(id).copied() {
                                    result = mk(step, opname, "failed_alloc_keeps_entries", format!("after failed insert get({:?}) = {:?}, before it was {:?}", id, other, model.get(id)));
                                    break 'ops;
                                }
                            }
                        }
                    }
                }
            }
            Op::Get(id) => {
                opname = "get";
                ever.insert(*id);
            }
            Op::GetMutWrite(id, d) => {
                opname = "get_mut";
                ever.insert(*id);
                let probe = K::new(*id, &ledger);
                let got = map.get_mut(&probe).map(|x| {
                    x.v += *d;
                    x.v
                });
                let exp = model.get_mut(id).map(|x| {
                    *x += *d;
                    *x
                });
                if got != exp {
                    result = mk(step, opname, "get_mut_result", format!("get_mut({:?}) -> {:?} expected {:?}", id, got, exp));
                    break 'ops;
                }
            }
            Op::Contains(id) => {
                opname = "contains";
                ever.insert(*id);
            }
            Op::Remove(id) => {
                opname = "remove";
                ever.insert(*id);
                if model.contains_key(id) {
                    let cap = map.capacity();
                    let h = fnv32(&id.0.to_le_bytes());
                    let hm = home(h, cap);
                    if model.keys().any(|o| {
                        if o == id {
                            return false;
                        }
                        let oh = home(fnv32(&o.0.to_le_bytes()), cap);
                        oh == hm || (oh + 1) % cap == hm || (hm + 1) % cap == oh
                    }) {
                        obs.remove_collide = true;
                    }
                }
                let probe = K::new(*id, &ledger);
                let got = map.remove(&probe).map(|x| x.v);
                let exp = model.remove(id);
                if got != exp {
                    result = mk(step, opname, "remove_result", format!("remove({:?}) -> {:?} expected {:?}", id, got, exp));
                    break 'ops;
                }
            }
            Op::Entry(id, v) => {
                opname = "entry";
                ever.insert(*id);
                match map.entry(K::new(*id, &ledger)) {
                    Ok(e) => {
                        let l2 = ledger.clone();
                        let vv = *v;
                        let got = e.or_insert_with(move || V::new(vv, &l2)).v;
                        let exp = *model.entry(*id).or_insert(*v);
                        if got != exp {
                            result = mk(step, opname, "entry_result", format!("entry({:?}).or_insert_with -> {} expected {}", id, got, exp));
                            break 'ops;
                        }
                        if map.capacity() != cap_before {
                            obs.entry_grow = true;
                        }
                    }
                    Err(e) => {
                        if failed_so_far(inj) == fails_before {
                            result = mk(step, opname, "alloc_error_without_failure", format!("entry failed: {}", e));
                            break 'ops;
                        }
                    }
                }
            }
            Op::Reserve(n) => {
                opname = "reserve";
                if let Err(e) = map.reserve(*n) {
                    if failed_so_far(inj) == fails_before {
                        result = mk(step, opname, "alloc_error_without_failure", format!("reserve failed: {}", e));
                        break 'ops;
                    }
                }
            }
            Op::Clear => {
                opname = "clear";
                map.clear();
                model.clear();
            }
            Op::Clone(cont) => {
                opname = "clone";
                if let Some(a) = inj {
                    a.st.borrow_mut().suspended = true;
                }
                let c = map.clone();
                if let Some(a) = inj {
                    a.st.borrow_mut().suspended = false;
                }
                if let Err((clause, d)) = full_check(&c, &model, &ever, &ledger) {
                    result = mk(step, "clone", &format!("clone_{}", clause), d);
                    std::mem::forget(c);
                    break 'ops;
                }
                if *cont {
                    obs.clone_diverge = true;
                    map = c; // the original is dropped here
                } else {
                    drop(c);
                }
            }
            Op::Iter => {
                opname = "iter";
            }
        }
        if failed_so_far(inj) != fails_before {
            obs.injected = true;
        }
        if map.capacity() != cap_before {
            obs.growth_steps += 1;
        }
        if let Err((clause, d)) = full_check(&map, &model, &ever, &ledger) {
            result = mk(step, opname, &clause, format!("after {:?}: {}", op, d));
            break 'ops;
        }
    }
    if result.is_some() {
        // the map may be corrupt: leak it instead of running its destructor
        std::mem::forget(map);
        return result;
    }
    drop(map);
    if let Some(d) = ledger_final(&ledger) {
        return mk(case.ops.len() as i64, "drop", "drop_exactly_once", d);
    }
    if let Some(a) = inj {
        let st = a.st.borrow();
        obs.allocs = st.allocs;
        if let Some(e) = st.errors.first() {
            return mk(case.ops.len() as i64, "drop", "allocator_protocol", e.clone());
        }
        if !st.outstanding.is_empty() {
            return mk(case.ops.len() as i64, "drop", "allocator_leak", format!("{} blocks still allocated after drop", st.outstanding.len()));
        }
    }
    None
}

impl Property for C12 {
    fn id(&self) -> &'static str {
        "C12"
    }
    fn rule(&self) -> &'static str {
        "case = (allocator mode, initial capacity, history of <=200 ops over keys with generator-chosen hash bytes: colliding homes at every capacity of the growth sequence 3,4,6,..63, wrap-around homes, equal-hash twins, the reserved hash 0); reference std HashMap compared after EVERY op (result, len, get/contains of every key ever used, iter each-once, drop ledger, allocator ledger); mode 2 re-runs the history once per allocation index with that allocation failing. non-trivial = a present key with a colliding/adjacent-home neighbour was removed, or entry() triggered growth, or >=3 growth steps, or an injected failure fired; distinct by hash of decoded case"
    }
    fn assumptions(&self) -> Vec<String> {
        vec![
            "Clone cannot report an allocation error, so failure injection is suspended during clone".into(),
            "after a failed insert the new key may or may not be present; everything else must be unchanged".into(),
            "insert's returned hash is compared with FNV-1a-32 of the key bytes except for the reserved value 0".into(),
        ]
    }
    fn max_len(&self) -> usize {
        1200
    }
    fn quick_cases(&self) -> u64 {
        640_000
    }
    fn states_termination(&self) -> bool {
        // every operation of a finite history must return a result; the generator cannot loop
        true
    }
    fn case_timeout(&self) -> std::time::Duration {
        std::time::Duration::from_secs(30)
    }
    fn describe(&self, bytes: &[u8]) -> J {
        let c = decode(bytes);
        let mode_name = ["system", "counting", "fail_at_n_sweep"][c.mode as usize];
        json!({"allocator_mode": mode_name, "initial_capacity": c.cap0,
               "ops": c.ops.iter().map(|o| format!("{:?}", o)).collect::<Vec<_>>()})
    }
    fn run(&self, bytes: &[u8], _tier: Tier) -> CaseOut {
        let case = decode(bytes);
        let fp = fnv64(format!("{:?}", case).as_bytes());
        let mut obs = Obs::default();
        let mut execs = 1;
        let mut fail = match case.mode {
            0 => run_history(&case, SysAllocator, None, &mut obs),
            _ => {
                let a = TestAlloc::new(None);
                run_history(&case, a.clone(), Some(&a), &mut obs)
            }
        };
        if fail.is_none() && case.mode == 2 {
            let total = obs.allocs.min(48);
            for n in 0..total {
                let a = TestAlloc::new(Some(n));
                execs += 1;
                let mut o2 = Obs::default();
                if let Some(mut f) = run_history(&case, a.clone(), Some(&a), &mut o2) {
                    f.detail = format!("[allocation #{} made to fail] {}", n, f.detail);
                    f.sig = format!("{}:failat", f.sig);
                    fail = Some(f);
                    break;
                }
                obs.injected |= o2.injected;
            }
        }
        let mut labels = vec![format!("mode{}", case.mode)];
        for (b, l) in [
            (obs.remove_collide, "remove_collide"),
            (obs.entry_grow, "entry_grow"),
            (obs.growth_steps >= 3, "growth>=3"),
            (obs.injected, "fail_at"),
            (obs.hash0, "hash0"),
            (obs.twin_pair, "twin_pair"),
            (obs.clone_diverge, "clone_diverge"),
        ] {
            if b {
                labels.push(l.to_string());
            }
        }
        let nontrivial = obs.remove_collide || obs.entry_grow || obs.growth_steps >= 3 || obs.injected;
        CaseOut {
            verdict: match fail {
                Some(f) => Verdict::Fail(f),
                None => Verdict::Pass,
            },
            nontrivial,
            labels,
            fingerprint: fp,
            execs,
        }
    }
    fn label_floors(&self) -> Vec<(&'static str, f64)> {
        vec![("remove_collide", 0.10), ("entry_grow", 0.05), ("fail_at", 0.05), ("hash0", 0.05)]
    }
}
