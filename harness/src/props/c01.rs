//! C01 — compiled programs compute what the card language defines.
//! Differential: observe(run(compile(lower(P)))) == reference-semantics(P).

use crate::choice::{fnv64, Choices};
use crate::engine::{CaseOut, Failure, Property, Tier, Verdict};
use crate::genprog::{gen_program, GenCfg};
use crate::ir::{program_json, Program};
use crate::observe::*;
use crate::refsem::{run_reference, ErrKind, RefOut};
use serde_json::{json, Value as J};

pub struct C01;

pub fn decode(bytes: &[u8]) -> Program {
    let mut c = Choices::new(bytes);
    let cfg = GenCfg::default();
    gen_program(&mut c, &cfg)
}

/// compare a VM observation with the reference; returns (clause, detail)
pub fn compare(obs: &Obs, r: &RefOut) -> Option<(String, String)> {
    let exp: Result<(), String> = match &r.outcome {
        Ok(()) => Ok(()),
        Err(e) => Err(e.name()),
    };
    if obs.outcome != exp {
        return Some(("outcome".into(), format!("vm outcome {:?}, reference {:?}", obs.outcome, exp)));
    }
    if let Some(d) = log_eq(&obs.log, &r.log) {
        return Some(("host_log".into(), d));
    }
    for (name, rv) in &r.globals {
        let vv = obs.globals.get(name).cloned().unwrap_or(crate::mval::MV::Nil);
        if !vv.obs_eq(rv) {
            return Some(("globals".into(), format!("global {}: vm {} reference {}", name, vv.to_json(), rv.to_json())));
        }
    }
    None
}

pub fn labels_of(r: &RefOut) -> Vec<String> {
    let s = &r.stats;
    let mut l = vec![];
    for (b, n) in [
        (s.calls_offset_gt0 > 0, "call_offset>0"),
        (s.loop_iterations_with_local > 0, "loop_with_local"),
        (s.returns_in_loop > 0, "return_in_loop"),
        (s.dyn_calls > 0, "dyn_call"),
        (s.closure_calls > 0, "closure_call"),
        (s.closures_created_offset_gt0 > 0, "closure_offset>0"),
        (s.closures_created_in_loop > 0, "closure_in_loop"),
        (s.captured_reads + s.captured_writes > 0, "captured_access"),
        (s.native_reentries > 0, "native_reentry"),
        (s.expr_stmts > 0, "expr_stmt"),
        (s.table_ops > 0, "table_ops"),
        (s.mixed_numeric > 0, "mixed_numeric"),
        (s.max_depth >= 3, "depth>=3"),
        (r.outcome.is_err(), "error_outcome"),
        (r.globals.len() > 16, "globals>16"),
    ] {
        if b {
            l.push(n.to_string());
        }
    }
    for t in &r.tags {
        l.push(format!("tag:{}", t));
    }
    l
}

pub fn discard_reason(r: &RefOut) -> Option<&'static str> {
    if let Err(ErrKind::Undefined(w)) = &r.outcome {
        return Some(w);
    }
    None
}

/// signature of a differential failure. Two known findings get their own signature, keyed on
/// what the reference interpreter saw happen in this very run.
pub fn failure_sig(prefix: &str, clause: &str, obs: &Obs, r: &RefOut) -> String {
    if r.tags.contains("junk_above_captured_local") {
        return format!("{}:junk_above_captured_local", prefix);
    }
    // values left on the VM stack by statement-level value cards and array literals exhaust it
    // (possibly wrapped in TaskFailure(..) when it happens below a re-entering native)
    let overflow = matches!(&obs.outcome, Err(k) if k.trim_end_matches(')').ends_with("Stackoverflow"));
    if overflow && r.stats.expr_stmts + r.stats.array_junk > 40 {
        return format!("{}:leftover_values_exhaust_stack", prefix);
    }
    let tags: Vec<String> = r.tags.iter().cloned().collect();
    if tags.is_empty() {
        format!("{}:{}", prefix, clause)
    } else {
        format!("{}:{}:{}", prefix, clause, tags.join("+"))
    }
}

impl Property for C01 {
    fn id(&self) -> &'static str {
        "C01"
    }
    fn rule(&self) -> &'static str {
        "case = whole well-scoped program (1-5 functions + closures, 0-3 params, all card kinds incl. loops, early return, static/dynamic/native calls, tables, dotted names; well-scopedness by construction) decoded from a proptest byte vector; oracle = independent AST interpreter (reference semantics): outcome kind, every global read by name, host-call log with arguments must be equal. Cases the reference marks undefined (read of a never-assigned global, arity mismatch, NaN/zero-real/table keys, fuel) are discarded and counted. non-trivial = the run made a call whose frame sits above other values, or a loop iteration with a local in scope, or an early return from inside a loop, AND produced at least one host call or wrote a global; distinct by hash of the decoded program"
    }
    fn assumptions(&self) -> Vec<String> {
        vec![
            "reference interpreter (src/refsem.rs) encodes the card semantics; it shares no code with cao-lang".into(),
            "memory limit raised to 256 MiB so no collection runs (GC placement is C02)".into(),
            "log(x) statements store their nil result in a dummy global so they leave nothing on the VM stack; bare value cards in statement position are a capped, labelled class".into(),
        ]
    }
    fn max_len(&self) -> usize {
        1600
    }
    fn quick_cases(&self) -> u64 {
        192_000
    }
    fn states_termination(&self) -> bool {
        // generated programs terminate by construction (and the VM has a budget): a case that does
        // not produce an outcome cannot equal the reference outcome
        true
    }
    fn describe(&self, bytes: &[u8]) -> J {
        program_json(&decode(bytes))
    }
    fn structured(&self, bytes: &[u8]) -> Option<J> {
        serde_json::to_value(decode(bytes)).ok()
    }
    fn run_structured(&self, case: &J, _tier: Tier) -> Option<CaseOut> {
        let prog: Program = serde_json::from_value(case.clone()).ok()?;
        Some(run_program(&prog))
    }
    fn run(&self, bytes: &[u8], _tier: Tier) -> CaseOut {
        run_program(&decode(bytes))
    }
    fn label_floors(&self) -> Vec<(&'static str, f64)> {
        vec![("call_offset>0", 0.05), ("loop_with_local", 0.10), ("return_in_loop", 0.005), ("dyn_call", 0.03), ("table_ops", 0.05)]
    }
}

fn run_program(prog: &Program) -> CaseOut {
    {
        let prog = prog.clone();
        let fp = fnv64(format!("{:?}", prog).as_bytes());
        let r = run_reference(&prog, 60_000);
        let labels = labels_of(&r);
        if let Some(w) = discard_reason(&r) {
            return CaseOut { verdict: Verdict::Discard(w), nontrivial: false, labels, fingerprint: fp, execs: 0 };
        }
        let tags: Vec<String> = r.tags.iter().cloned().collect();
        let sig_tail = if tags.is_empty() { String::new() } else { format!(":{}", tags.join("+")) };
        let compiled = match compile_program(&prog) {
            Ok(c) => c,
            Err(e) => {
                return CaseOut {
                    verdict: Verdict::Fail(Failure::new(
                        "compiles",
                        &format!("c01:compile_error:{:?}", std::mem::discriminant(&e.payload)).replace(['(', ')'], "_"),
                        format!("well-scoped program rejected by the compiler: {}", e),
                    )),
                    nontrivial: false,
                    labels,
                    fingerprint: fp,
                    execs: 1,
                }
            }
        };
        let obs = run_vm(&compiled, &prog.globals, &RunCfg::default());
        let s = &r.stats;
        let nontrivial = (s.calls_offset_gt0 > 0 || s.loop_iterations_with_local > 0 || s.returns_in_loop > 0)
            && (!r.log.is_empty() || r.globals.iter().any(|(n, v)| !n.starts_with("in") && !matches!(v, crate::mval::MV::Nil)));
        let verdict = match compare(&obs, &r) {
            None => Verdict::Pass,
            Some((clause, detail)) => Verdict::Fail(Failure::new(&clause, &failure_sig("c01", &clause, &obs, &r), detail)),
        };
        CaseOut { verdict, nontrivial, labels, fingerprint: fp, execs: 1 }
    }
}

pub fn sample_json(p: &Program) -> J {
    json!(program_json(p))
}
