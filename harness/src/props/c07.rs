//! C07 — tables are insertion-ordered maps keyed by value (host-API path in every case; one case
//! in 24 also runs the same history as a card program, see "script family" below).
//!
//! Histories over 1..4 tables with aliasing (a table stored as a field of another and mutated
//! through it). Oracle: `Vec<(key, value)>` with linear search, compared after every op.

use crate::choice::{fnv64, Choices};
use crate::engine::{CaseOut, Failure, Property, Tier, Verdict};
use crate::mval::*;
use cao_lang::prelude::*;
use cao_lang::vm::runtime::RuntimeData;
use serde_json::{json, Value as J};
use std::sync::OnceLock;

pub struct C07;

/// i64 keys whose 8 little-endian bytes hash to the reserved value 0 under the table's FNV-1a-32
pub const ZERO_HASH_INTS: [i64; 3] = [3291555020, 3416215008, 18968950753];

fn fnv32(bytes: &[u8]) -> u64 {
    let mut h: u64 = 2166136261;
    for b in bytes {
        h ^= *b as u64;
        h &= 0xffff_ffff;
        h = h.wrapping_mul(16777619);
    }
    h & 0xffff_ffff
}

const CAPS: [usize; 5] = [8, 12, 18, 27, 40];

/// ints grouped by identical home slot at each capacity of a table's growth sequence
fn int_groups() -> &'static Vec<Vec<i64>> {
    static P: OnceLock<Vec<Vec<i64>>> = OnceLock::new();
    P.get_or_init(|| {
        let mut out = vec![];
        for cap in CAPS {
            let mut by_home: Vec<Vec<i64>> = vec![vec![]; cap];
            for i in 100i64..6000 {
                let h = fnv32(&i.to_le_bytes());
                let hm = (h.wrapping_mul(2654435769) as usize) % cap;
                if by_home[hm].len() < 5 {
                    by_home[hm].push(i);
                }
            }
            let occ: Vec<usize> = (0..cap).filter(|s| by_home[*s].len() >= 5).collect();
            out.push(by_home[*occ.last().unwrap()].clone());
            out.push(by_home[occ[0]].clone());
        }
        out
    })
}

#[derive(Debug, Clone)]
enum Op {
    Set(usize, MV, i64),
    Get(usize, MV),
    Append(usize, i64),
    Pop(usize),
    Len(usize),
    NthKey(usize, usize),
    Iter(usize),
    Remove(usize, MV),
    /// outer[key] = inner table
    StoreAlias(usize, MV, usize),
    /// fetch outer[key]; if it is a table: set k=v through it
    SetViaAlias(usize, MV, MV, i64),
    /// t = a second handle of the same object obtained by a get from an outer table
    AppendViaAlias(usize, MV, i64),
}

fn gen_key(c: &mut Choices) -> MV {
    match c.weighted(&[30, 14, 12, 14, 4, 4, 6, 8]) {
        0 => MV::Int(c.range(0, 12)),
        1 => {
            let g = int_groups();
            let grp = &g[c.draw(g.len())];
            MV::Int(grp[c.draw(grp.len())])
        }
        2 => MV::Real(*c.pick(&[1.0, 2.0, 0.5, -1.5, 3.25, 1e10, 5e-324, 9007199254740992.0])),
        3 => MV::Str(c.pick(&STR_POOL).to_string()),
        4 => MV::Nil,
        5 => MV::Int(*c.pick(&ZERO_HASH_INTS)),
        6 => MV::Int(*c.pick(&[-1, -2, i64::MAX, i64::MIN, 1 << 53, (1 << 53) + 1])),
        _ => MV::Int(c.range(0, 60)),
    }
}

/// choices of the script family, drawn AFTER the history so that the decoding of the history
/// itself (and of the committed replay files) is what it always was
#[derive(Debug, Clone, Default)]
struct ScriptPlan {
    on: bool,
    /// per op: how the table is reached (variable, global alias, helper function parameter,
    /// captured variable of a closure, field of a holder table read with the dotted shorthand)
    paths: Vec<u8>,
    /// loop-variable subset of the final for-each dumps
    fe_vars: u8,
    /// dump every table also after this op
    mid_dump: usize,
}

fn decode(bytes: &[u8]) -> (usize, Vec<Op>) {
    let (nt, ops, _) = decode_all(bytes);
    (nt, ops)
}

fn decode_all(bytes: &[u8]) -> (usize, Vec<Op>, ScriptPlan) {
    let mut c = Choices::new(bytes);
    let nt = 1 + c.draw(4);
    let n = c.draw(121);
    let mut ops = vec![];
    let mut val = 0;
    for _ in 0..n {
        if c.exhausted() {
            break;
        }
        val += 1;
        let t = c.draw(nt);
        let op = match c.weighted(&[26, 8, 16, 12, 2, 5, 4, 8, 4, 4, 4]) {
            0 => Op::Set(t, gen_key(&mut c), val),
            1 => Op::Get(t, gen_key(&mut c)),
            2 => Op::Append(t, val),
            3 => Op::Pop(t),
            4 => Op::Len(t),
            5 => Op::NthKey(t, c.draw(14)),
            6 => Op::Iter(t),
            7 => Op::Remove(t, gen_key(&mut c)),
            8 => Op::StoreAlias(t, gen_key(&mut c), c.draw(nt)),
            9 => Op::SetViaAlias(t, gen_key(&mut c), gen_key(&mut c), val),
            _ => Op::AppendViaAlias(t, gen_key(&mut c), val),
        };
        ops.push(op);
    }
    let mut plan = ScriptPlan::default();
    // 0 (exhausted input) = host family only
    plan.on = c.draw(24) == 23;
    if plan.on {
        plan.fe_vars = c.draw(6) as u8;
        plan.mid_dump = c.draw(ops.len() + 1);
        plan.paths = ops.iter().map(|_| c.draw(6) as u8).collect();
    }
    (nt, ops, plan)
}

#[derive(Debug, Clone, PartialEq)]
enum MVal {
    Int(i64),
    Table(usize),
}

type MTable = Vec<(MV, MVal)>;

fn mfind(t: &MTable, k: &MV) -> Option<usize> {
    t.iter().position(|(ek, _)| ek.model_eq(k))
}

fn mset(t: &mut MTable, k: &MV, v: MVal) {
    match mfind(t, k) {
        Some(i) => t[i].1 = v,
        None => t.push((k.clone(), v)),
    }
}

fn mappend(t: &mut MTable, v: MVal) -> MV {
    let mut idx = t.len() as i64;
    while mfind(t, &MV::Int(idx)).is_some() {
        idx += 1;
    }
    t.push((MV::Int(idx), v));
    MV::Int(idx)
}

struct Obs {
    pop_then_use: bool,
    grew: bool,
    alias_write: bool,
    remove_then_use: bool,
    zero_hash: bool,
}

fn key_is_equal(v: Value, m: &MV) -> bool {
    MV::from_value(v).model_eq(m)
}

fn run_history(nt: usize, ops: &[Op], obs: &mut Obs) -> Option<Failure> {
    let mut vm = Vm::new(()).expect("vm");
    vm.runtime_data = RuntimeData::new(64 << 20, 256, 256).expect("runtime");
    let mut tables: Vec<Value> = vec![];
    for _ in 0..nt {
        tables.push(Value::Object(vm.init_table().expect("init_table").into_inner()));
    }
    let mut model: Vec<MTable> = vec![vec![]; nt];
    let mut popped_or_removed = vec![false; nt];
    let mk = |step: usize, op: &str, clause: &str, detail: String| {
        Some(Failure::new(clause, &format!("tbl:{}:{}", op, clause), format!("step {} ({}): {}", step, op, detail)))
    };
    fn table_of<'a>(v: Value) -> &'a mut CaoLangTable {
        <&mut CaoLangTable>::try_from(v).ok().expect("table value")
    }
    let to_model_val = |v: Option<Value>, tables: &Vec<Value>| -> Option<MVal> {
        match v {
            None => None,
            Some(Value::Integer(i)) => Some(MVal::Int(i)),
            Some(Value::Object(o)) => tables.iter().position(|t| matches!(t, Value::Object(p) if *p == o)).map(MVal::Table),
            Some(_) => Some(MVal::Int(i64::MIN)),
        }
    };

    for (step, op) in ops.iter().enumerate() {
        let mut touched: Vec<usize> = vec![];
        match op {
            Op::Set(t, k, v) => {
                if let MV::Int(i) = k {
                    if ZERO_HASH_INTS.contains(i) {
                        obs.zero_hash = true;
                    }
                }
                let kv = materialize(&mut vm, k).unwrap();
                if let Err(e) = table_of(tables[*t]).insert(kv, Value::Integer(*v)) {
                    return mk(step, "set", "insert_ok", format!("{:?}", e));
                }
                mset(&mut model[*t], k, MVal::Int(*v));
                touched.push(*t);
            }
            Op::Get(t, k) => {
                let kv = materialize(&mut vm, k).unwrap();
                let got = to_model_val(table_of(tables[*t]).get(&kv).copied(), &tables);
                let exp = mfind(&model[*t], k).map(|i| model[*t][i].1.clone());
                if got != exp {
                    let clause = if popped_or_removed[*t] && exp.is_none() { "removed_key_absent" } else { "get_result" };
                    return mk(step, "get", clause, format!("t{}[{}] = {:?} expected {:?}", t, k.to_json(), got, exp));
                }
            }
            Op::Append(t, v) => {
                if let Err(e) = table_of(tables[*t]).append(Value::Integer(*v)) {
                    return mk(step, "append", "append_ok", format!("{:?}", e));
                }
                let key = mappend(&mut model[*t], MVal::Int(*v));
                // the appended entry must be the last one and carry the model's key
                let last = table_of(tables[*t]).keys().last().copied();
                match last {
                    Some(k) if key_is_equal(k, &key) => {}
                    other => {
                        let clause = if popped_or_removed[*t] { "append_key_after_pop" } else { "append_key" };
                        return mk(step, "append", clause, format!("appended under key {:?} expected {}", other.map(|k| MV::from_value(k).to_json()), key.to_json()));
                    }
                }
                touched.push(*t);
            }
            Op::Pop(t) => {
                let exp = model[*t].pop().map(|(_, v)| v);
                let got = match table_of(tables[*t]).pop() {
                    Ok(v) => v,
                    Err(e) => return mk(step, "pop", "pop_ok", format!("{:?}", e)),
                };
                let gotm = if matches!(got, Value::Nil) { None } else { to_model_val(Some(got), &tables) };
                if gotm != exp {
                    return mk(step, "pop", "pop_result", format!("pop -> {:?} expected {:?}", gotm, exp));
                }
                popped_or_removed[*t] = true;
                obs.pop_then_use = true;
                touched.push(*t);
            }
            Op::Len(_) | Op::Iter(_) => {}
            Op::NthKey(t, i) => {
                let got = MV::from_value(table_of(tables[*t]).nth_key(*i));
                let exp = model[*t].get(*i).map(|(k, _)| k.clone()).unwrap_or(MV::Nil);
                if !got.model_eq(&exp) && !(matches!(got, MV::Nil) && matches!(exp, MV::Nil)) {
                    return mk(step, "nth_key", "nth_key_result", format!("nth_key({}) = {} expected {}", i, got.to_json(), exp.to_json()));
                }
            }
            Op::Remove(t, k) => {
                let kv = materialize(&mut vm, k).unwrap();
                if let Err(e) = table_of(tables[*t]).remove(kv) {
                    return mk(step, "remove", "remove_ok", format!("{:?}", e));
                }
                if let Some(i) = mfind(&model[*t], k) {
                    model[*t].remove(i);
                    popped_or_removed[*t] = true;
                    obs.remove_then_use = true;
                }
                touched.push(*t);
            }
            Op::StoreAlias(outer, k, inner) => {
                let kv = materialize(&mut vm, k).unwrap();
                if let Err(e) = table_of(tables[*outer]).insert(kv, tables[*inner]) {
                    return mk(step, "store_alias", "insert_ok", format!("{:?}", e));
                }
                mset(&mut model[*outer], k, MVal::Table(*inner));
                touched.push(*outer);
            }
            Op::SetViaAlias(outer, k, k2, v) => {
                let kv = materialize(&mut vm, k).unwrap();
                let fetched = table_of(tables[*outer]).get(&kv).copied();
                let exp = mfind(&model[*outer], k).map(|i| model[*outer][i].1.clone());
                if to_model_val(fetched, &tables) != exp {
                    return mk(step, "via_alias", "get_result", format!("t{}[{}] = {:?} expected {:?}", outer, k.to_json(), to_model_val(fetched, &tables), exp));
                }
                if let (Some(MVal::Table(inner)), Some(fv)) = (exp, fetched) {
                    let k2v = materialize(&mut vm, k2).unwrap();
                    if let Err(e) = table_of(fv).insert(k2v, Value::Integer(*v)) {
                        return mk(step, "via_alias", "insert_ok", format!("{:?}", e));
                    }
                    mset(&mut model[inner], k2, MVal::Int(*v));
                    obs.alias_write = true;
                    touched.push(inner);
                }
            }
            Op::AppendViaAlias(outer, k, v) => {
                let kv = materialize(&mut vm, k).unwrap();
                let fetched = table_of(tables[*outer]).get(&kv).copied();
                let exp = mfind(&model[*outer], k).map(|i| model[*outer][i].1.clone());
                if let (Some(MVal::Table(inner)), Some(fv)) = (exp, fetched) {
                    if to_model_val(Some(fv), &tables) != Some(MVal::Table(inner)) {
                        return mk(step, "via_alias", "alias_identity", format!("t{}[{}] is not the stored table", outer, k.to_json()));
                    }
                    if let Err(e) = table_of(fv).append(Value::Integer(*v)) {
                        return mk(step, "via_alias", "append_ok", format!("{:?}", e));
                    }
                    mappend(&mut model[inner], MVal::Int(*v));
                    obs.alias_write = true;
                    touched.push(inner);
                }
            }
        }
        // after every op: every table agrees with its model (len, iteration order, keys(), get of every key)
        for t in 0..nt {
            let tb = table_of(tables[t]);
            let m = &model[t];
            if tb.len() != m.len() || tb.is_empty() != m.is_empty() {
                let clause = if popped_or_removed[t] { "len_after_pop" } else { "len" };
                return mk(step, "any", clause, format!("after {:?}: t{}.len() = {} expected {}", op, t, tb.len(), m.len()));
            }
            if m.len() >= 9 {
                obs.grew = true;
            }
            let entries: Vec<(Value, Value)> = tb.iter().map(|(k, v)| (*k, *v)).collect();
            if entries.len() != m.len() {
                return mk(step, "any", "iter_visits_each_once", format!("after {:?}: iter over t{} yields {} entries expected {}", op, t, entries.len(), m.len()));
            }
            for (i, ((k, v), (mk_, mv))) in entries.iter().zip(m.iter()).enumerate() {
                if !key_is_equal(*k, mk_) || to_model_val(Some(*v), &tables).as_ref() != Some(mv) {
                    return mk(step, "any", "iter_order", format!("after {:?}: t{} entry #{} is ({}, {:?}) expected ({}, {:?})", op, t, i, MV::from_value(*k).to_json(), to_model_val(Some(*v), &tables), mk_.to_json(), mv));
                }
            }
            let keys = tb.keys();
            if keys.len() != m.len() || keys.iter().zip(m.iter()).any(|(k, (mk_, _))| !key_is_equal(*k, mk_)) {
                return mk(step, "any", "keys_order", format!("after {:?}: keys() of t{} disagree with the model", op, t));
            }
            for (i, (mk_, mv)) in m.iter().enumerate() {
                // read through a *fresh* equal key (distinct string object)
                let kv = materialize(&mut vm, mk_).unwrap();
                let got = to_model_val(table_of(tables[t]).get(&kv).copied(), &tables);
                if got.as_ref() != Some(mv) {
                    return mk(step, "any", "present_key_found", format!("after {:?}: t{}[{}] = {:?} expected {:?}", op, t, mk_.to_json(), got, mv));
                }
                let nk = table_of(tables[t]).nth_key(i);
                if !key_is_equal(nk, mk_) {
                    return mk(step, "any", "nth_key_result", format!("after {:?}: t{}.nth_key({}) = {} expected {}", op, t, i, MV::from_value(nk).to_json(), mk_.to_json()));
                }
            }
        }
        let _ = touched;
    }
    None
}

// ---------------------------------------------------------------------------------------------
// script family: the same history as a card program (SetProperty / GetProperty / AppendTable /
// PopTable / Len / Get / ForEach cards, dotted variable shorthand), every table reached through
// variables, global aliases, function parameters, captured variables and fields of a holder table.
// Oracle: the same Vec<(key, value)> model; the expected host-call log is computed from the model
// while the program is put together. The reference interpreter runs the program too: it must
// agree with the model (a disagreement is a harness fault, reported as such), and whatever it
// marks undefined is discarded.
// ---------------------------------------------------------------------------------------------

use crate::genprog::log_stmt;
use crate::ir::{program_json, ClosureDef, Expr, FuncDef, ModuleDef, Program, Stmt};
use crate::observe::{compile_program, log_eq, run_vm, RunCfg};
use crate::refsem::{run_reference, ErrKind};
use std::rc::Rc;

fn key_expr(k: &MV) -> Expr {
    match k {
        MV::Nil => Expr::Nil,
        MV::Int(i) => Expr::Int(*i),
        MV::Real(r) => Expr::Real(*r),
        MV::Str(s) => Expr::Str(s.clone()),
        _ => Expr::Nil,
    }
}

fn ident_like(s: &str) -> bool {
    !s.is_empty() && s.chars().all(|c| c.is_ascii_alphabetic())
}

fn reaches(model: &[MTable], from: usize, to: usize, depth: u32) -> bool {
    if from == to {
        return true;
    }
    if depth > 8 {
        return true;
    }
    model[from].iter().any(|(_, v)| matches!(v, MVal::Table(j) if reaches(model, *j, to, depth + 1)))
}

struct Script {
    body: Vec<Stmt>,
    expected: Vec<(String, Vec<MV>)>,
    closures: usize,
    fe: usize,
    used_paths: [bool; 6],
}

impl Script {
    fn log(&mut self, e: Expr, exp: MV) {
        self.body.push(log_stmt(e));
        self.expected.push(("log".into(), vec![exp]));
    }
    /// expression denoting table `t` reached by `path`
    fn table(&mut self, t: usize, path: u8) -> Expr {
        match path {
            1 => Expr::Var(format!("gt{}", t)),
            4 => Expr::Var(format!("h.f{}", t)),
            5 => Expr::GetProp(Box::new(Expr::Var("h".into())), Box::new(Expr::Str(format!("f{}", t)))),
            _ => Expr::Var(format!("t{}", t)),
        }
    }
    fn closure(&mut self, body: Vec<Stmt>) -> Expr {
        let id = self.closures;
        self.closures += 1;
        Expr::DynCall(Box::new(Expr::Closure(Rc::new(ClosureDef { id, params: vec![], body }))), vec![])
    }
    /// the value of `tbl[key]` (read), through the access path
    fn read(&mut self, t: usize, path: u8, key: &MV) -> Expr {
        self.used_paths[path as usize % 6] = true;
        let te = self.table(t, path);
        match path {
            2 => Expr::Call("fget".into(), 1, vec![key_expr(key), te]),
            3 => self.closure(vec![Stmt::Return(Expr::GetProp(Box::new(te), Box::new(key_expr(key))))]),
            4 => match key {
                MV::Str(s) if ident_like(s) => Expr::Var(format!("h.f{}.{}", t, s)),
                _ => Expr::GetProp(Box::new(te), Box::new(key_expr(key))),
            },
            0 => match key {
                MV::Str(s) if ident_like(s) => Expr::Var(format!("t{}.{}", t, s)),
                _ => Expr::GetProp(Box::new(te), Box::new(key_expr(key))),
            },
            _ => Expr::GetProp(Box::new(te), Box::new(key_expr(key))),
        }
    }
    fn set(&mut self, t: usize, path: u8, key: &MV, val: Expr) {
        self.used_paths[path as usize % 6] = true;
        let te = self.table(t, path);
        let st = match path {
            // declared (v, t, k): the first supplied argument binds to the last declared parameter
            2 => Stmt::SetGlobal(crate::genprog::SINK.into(), Expr::Call("fset".into(), 2, vec![key_expr(key), te, val])),
            3 => {
                let c = self.closure(vec![Stmt::SetProp(val, te, key_expr(key))]);
                Stmt::SetGlobal(crate::genprog::SINK.into(), c)
            }
            _ => Stmt::SetProp(val, te, key_expr(key)),
        };
        self.body.push(st);
    }
    fn append(&mut self, te: Expr, path: u8, val: Expr) {
        self.used_paths[path as usize % 6] = true;
        let st = match path {
            2 => Stmt::SetGlobal(crate::genprog::SINK.into(), Expr::Call("fappend".into(), 3, vec![te, val])),
            3 => {
                let c = self.closure(vec![Stmt::Append(val, te)]);
                Stmt::SetGlobal(crate::genprog::SINK.into(), c)
            }
            _ => Stmt::Append(val, te),
        };
        self.body.push(st);
    }
    /// log what the model says a fetched entry is: the integer, nil, or - for a table - its length
    fn log_fetched(&mut self, e: Expr, exp: Option<&MVal>, model: &[MTable]) {
        match exp {
            None => self.log(e, MV::Nil),
            Some(MVal::Int(i)) => self.log(e, MV::Int(*i)),
            Some(MVal::Table(j)) => self.log(Expr::Len(Box::new(e)), MV::Int(model[*j].len() as i64)),
        }
    }
    fn dump(&mut self, nt: usize, model: &[MTable], fe_vars: u8) {
        for t in 0..nt {
            let m = &model[t];
            let path = ((t + self.fe) % 2) as u8; // variable or global alias
            let te = self.table(t, path);
            self.log(Expr::Len(Box::new(te.clone())), MV::Int(m.len() as i64));
            let has_table_val = m.iter().any(|(_, v)| matches!(v, MVal::Table(_)));
            let n = self.fe;
            self.fe += 1;
            let (iv, kv, vv) = (format!("i{}", n), format!("k{}", n), format!("v{}", n));
            let subset = if has_table_val { fe_vars % 3 } else { fe_vars };
            // 0: i k   1: k   2: i   3: i k v   4: k v   5: v
            let (ui, uk, uv) = match subset {
                0 => (true, true, false),
                1 => (false, true, false),
                2 => (true, false, false),
                3 => (true, true, true),
                4 => (false, true, true),
                _ => (false, false, true),
            };
            let mut args = vec![];
            if ui {
                args.push(Expr::Var(iv.clone()));
            }
            if uk {
                args.push(Expr::Var(kv.clone()));
            }
            if uv {
                args.push(Expr::Var(vv.clone()));
            }
            let name = ["log", "log2", "log3"][args.len() - 1];
            self.body.push(Stmt::ForEach {
                i: ui.then(|| iv.clone()),
                k: uk.then(|| kv.clone()),
                v: uv.then(|| vv.clone()),
                iterable: te.clone(),
                body: Box::new(Stmt::SetGlobal(crate::genprog::SINK.into(), Expr::CallNative(name.into(), args))),
            });
            for (idx, (k, v)) in m.iter().enumerate() {
                let mut a = vec![];
                if ui {
                    a.push(MV::Int(idx as i64));
                }
                if uk {
                    a.push(k.clone());
                }
                if uv {
                    a.push(match v {
                        MVal::Int(i) => MV::Int(*i),
                        MVal::Table(_) => MV::Nil,
                    });
                }
                self.expected.push((name.into(), a));
            }
            // row by index: key (and integer value) of every row, and one row beyond the end
            // unless the table has a nil key (then the statement does not say what comes back)
            for (idx, (k, v)) in m.iter().enumerate() {
                let row = Expr::Get(Box::new(te.clone()), Box::new(Expr::Int(idx as i64)));
                self.log(Expr::GetProp(Box::new(row.clone()), Box::new(Expr::Str("key".into()))), k.clone());
                if let MVal::Int(i) = v {
                    self.log(Expr::GetProp(Box::new(row), Box::new(Expr::Str("value".into()))), MV::Int(*i));
                }
            }
            // every present key read back through a fresh literal
            for (k, v) in m.iter() {
                let e = Expr::GetProp(Box::new(te.clone()), Box::new(key_expr(k)));
                let vv = v.clone();
                self.log_fetched(e, Some(&vv), model);
            }
        }
    }
}

fn helper(id: usize, name: &str, params: &[&str], body: Vec<Stmt>) -> FuncDef {
    FuncDef { id, name: name.into(), module: vec![], params: params.iter().map(|s| s.to_string()).collect(), body }
}

/// (program, expected host-call log, access paths used)
fn script_of(nt: usize, ops: &[Op], plan: &ScriptPlan) -> (Program, Vec<(String, Vec<MV>)>, [bool; 6], bool) {
    let v = |n: &str| Expr::Var(n.to_string());
    let mut sc = Script { body: vec![], expected: vec![], closures: 0, fe: 0, used_paths: [false; 6] };
    let mut model: Vec<MTable> = vec![vec![]; nt];
    let mut pop_then_use = false;
    let mut popped = vec![false; nt];
    sc.body.push(Stmt::SetVar("h".into(), Expr::CreateTable));
    for t in 0..nt {
        sc.body.push(Stmt::SetVar(format!("t{}", t), Expr::CreateTable));
        sc.body.push(Stmt::SetGlobal(format!("gt{}", t), v(&format!("t{}", t))));
        sc.body.push(Stmt::SetProp(v(&format!("t{}", t)), v("h"), Expr::Str(format!("f{}", t))));
    }
    let mut iters = 0;
    for (step, op) in ops.iter().enumerate() {
        let path = plan.paths.get(step).copied().unwrap_or(0);
        match op {
            Op::Set(t, k, val) => {
                sc.set(*t, path, k, Expr::Int(*val));
                mset(&mut model[*t], k, MVal::Int(*val));
                pop_then_use |= popped[*t];
            }
            Op::Get(t, k) | Op::Remove(t, k) => {
                let e = sc.read(*t, path, k);
                let exp = mfind(&model[*t], k).map(|i| model[*t][i].1.clone());
                sc.log_fetched(e, exp.as_ref(), &model);
                pop_then_use |= popped[*t];
            }
            Op::Append(t, val) => {
                let te = sc.table(*t, path);
                sc.append(te, path, Expr::Int(*val));
                mappend(&mut model[*t], MVal::Int(*val));
                pop_then_use |= popped[*t];
            }
            Op::Pop(t) => {
                let te = sc.table(*t, path);
                sc.used_paths[path as usize % 6] = true;
                let e = match path {
                    2 => Expr::Call("fpop".into(), 4, vec![te]),
                    3 => sc.closure(vec![Stmt::Return(Expr::PopTable(Box::new(te)))]),
                    _ => Expr::PopTable(Box::new(te)),
                };
                let exp = model[*t].pop().map(|(_, v)| v);
                sc.log_fetched(e, exp.as_ref(), &model);
                popped[*t] = true;
            }
            Op::Len(t) => {
                let te = sc.table(*t, path);
                sc.log(Expr::Len(Box::new(te)), MV::Int(model[*t].len() as i64));
            }
            Op::NthKey(t, i) => {
                if *i < model[*t].len() {
                    let te = sc.table(*t, path);
                    let row = Expr::Get(Box::new(te), Box::new(Expr::Int(*i as i64)));
                    sc.log(Expr::GetProp(Box::new(row), Box::new(Expr::Str("key".into()))), model[*t][*i].0.clone());
                }
            }
            Op::Iter(_) => {
                if iters < 2 {
                    iters += 1;
                    sc.dump(nt, &model, (plan.fe_vars + iters) % 6);
                }
            }
            Op::StoreAlias(outer, k, inner) => {
                // a table reachable from itself is outside what the properties define
                if !reaches(&model, *inner, *outer, 0) {
                    let ie = sc.table(*inner, (path + 1) % 2);
                    sc.set(*outer, path, k, ie);
                    mset(&mut model[*outer], k, MVal::Table(*inner));
                }
            }
            Op::SetViaAlias(outer, k, k2, val) => {
                if let Some(MVal::Table(inner)) = mfind(&model[*outer], k).map(|i| model[*outer][i].1.clone()) {
                    let fetched = sc.read(*outer, path, k);
                    sc.body.push(Stmt::SetProp(Expr::Int(*val), fetched, key_expr(k2)));
                    mset(&mut model[inner], k2, MVal::Int(*val));
                }
            }
            Op::AppendViaAlias(outer, k, val) => {
                if let Some(MVal::Table(inner)) = mfind(&model[*outer], k).map(|i| model[*outer][i].1.clone()) {
                    let fetched = sc.read(*outer, path, k);
                    sc.body.push(Stmt::Append(Expr::Int(*val), fetched));
                    mappend(&mut model[inner], MVal::Int(*val));
                }
            }
        }
        if plan.mid_dump == step + 1 && iters < 3 {
            iters += 1;
            sc.dump(nt, &model, (plan.fe_vars + 3) % 6);
        }
    }
    sc.dump(nt, &model, plan.fe_vars);
    let gp = |t: &str, k: &str| Expr::GetProp(Box::new(v(t)), Box::new(v(k)));
    let funcs = vec![
        helper(0, "main", &[], sc.body),
        helper(1, "fget", &["t", "k"], vec![Stmt::Return(gp("t", "k"))]),
        helper(2, "fset", &["v", "t", "k"], vec![Stmt::SetProp(v("v"), v("t"), v("k"))]),
        helper(3, "fappend", &["v", "t"], vec![Stmt::Append(v("v"), v("t"))]),
        helper(4, "fpop", &["t"], vec![Stmt::Return(Expr::PopTable(Box::new(v("t"))))]),
    ];
    let mut globals = vec![crate::genprog::SINK.to_string()];
    for t in 0..nt {
        globals.push(format!("gt{}", t));
    }
    let prog = Program {
        funcs,
        root: ModuleDef { name: String::new(), functions: vec![0, 1, 2, 3, 4], submodules: vec![], imports: vec![] },
        globals: vec![],
    };
    let _ = globals;
    (prog, sc.expected, sc.used_paths, pop_then_use)
}

/// run the script family; None = discarded (outside the defined semantics)
fn run_script(nt: usize, ops: &[Op], plan: &ScriptPlan, labels: &mut Vec<String>) -> Result<Option<Failure>, &'static str> {
    let (prog, expected, used, _) = script_of(nt, ops, plan);
    let r = run_reference(&prog, 400_000);
    match &r.outcome {
        Err(ErrKind::Undefined(w)) => return Err(w),
        Err(e) => {
            return Ok(Some(Failure::new(
                "harness_script_model",
                "c07s:harness:reference_outcome",
                format!("HARNESS FAULT: the reference interpreter ends the table script with {:?}", e.name()),
            )))
        }
        Ok(()) => {}
    }
    if let Some(d) = log_eq(&r.log, &expected) {
        return Ok(Some(Failure::new(
            "harness_script_model",
            "c07s:harness:reference_vs_table_model",
            format!("HARNESS FAULT: reference interpreter and table model disagree on the script: {}", d),
        )));
    }
    for (i, n) in ["var", "global_alias", "fn_param", "captured", "dotted_field", "holder_field"].iter().enumerate() {
        if used[i] {
            labels.push(format!("script_path:{}", n));
        }
    }
    let compiled = match compile_program(&prog) {
        Ok(c) => c,
        Err(e) => return Ok(Some(Failure::new("script_compiles", "c07s:compile_error", format!("table script rejected by the compiler: {}", e)))),
    };
    let obs = run_vm(&compiled, &[], &RunCfg::default());
    if obs.outcome != Ok(()) {
        return Ok(Some(Failure::new(
            "script_outcome",
            &format!("c07s:outcome:{}", obs.outcome.clone().unwrap_err()),
            format!("table script fails with {:?} ({:?}); the model says every step is defined", obs.outcome, obs.detail),
        )));
    }
    if let Some(d) = log_eq(&obs.log, &expected) {
        return Ok(Some(Failure::new("script_table_ops", "c07s:script_table_ops", format!("script path: {}", d))));
    }
    Ok(None)
}

impl Property for C07 {
    fn id(&self) -> &'static str {
        "C07"
    }
    fn rule(&self) -> &'static str {
        "case = history of <=120 ops (set get append pop len nth_key iter remove store-table-as-field write-through-field) over 1..4 tables created with Vm::init_table, keys from a pool built to collide and to probe equality (small ints, ints with identical home slots at capacities 8/12/18/27/40, ints whose hash is the reserved 0, ints >= 2^53, negative, finite non-zero reals, strings re-created as distinct objects for every lookup, nil); reference = Vec<(key,value)> with linear search compared after EVERY op on EVERY table: len, iteration order of keys and values, keys(), nth_key, get of every present key through a fresh equal key; results of get/pop/append-key. non-trivial = a pop or remove was followed by further ops on that table, or a table held >= 9 keys (one growth), or a write went through an alias; distinct by hash of the decoded history. Script family (1 case in 24): the same history as a card program (SetProperty / GetProperty / AppendTable / PopTable / Len / Get cards, for-each with every subset of i,k,v, dotted variable shorthand), every table reached per op through a variable, a global alias, a function parameter, a variable captured by a closure or a field of a holder table; the expected host-call log (every get / pop / len result, and dumps of every table: len, for-each rows, row-by-index keys and values, every present key read back) is computed from the same Vec model while the program is put together; the reference interpreter must agree with the model (else a harness fault is reported) and discards what it marks undefined"
    }
    fn assumptions(&self) -> Vec<String> {
        vec!["host path in every case, script path (SetProperty/GetProperty/AppendTable/PopTable/Len/Get/ForEach cards) in 1 case of 24; scripts never build a table reachable from itself and never read a row beyond the end".into()]
    }
    fn max_len(&self) -> usize {
        900
    }
    fn quick_cases(&self) -> u64 {
        1_600_000
    }
    fn states_termination(&self) -> bool {
        true
    }
    fn case_timeout(&self) -> std::time::Duration {
        std::time::Duration::from_secs(30)
    }
    fn describe(&self, bytes: &[u8]) -> J {
        let (nt, ops, plan) = decode_all(bytes);
        let mut j = json!({"tables": nt, "ops": ops.iter().map(|o| format!("{:?}", o)).collect::<Vec<_>>()});
        if plan.on {
            let (prog, _, _, _) = script_of(nt, &ops, &plan);
            j["script_family"] = json!({"access_paths": plan.paths, "program": program_json(&prog)});
        }
        j
    }
    fn run(&self, bytes: &[u8], _tier: Tier) -> CaseOut {
        let (nt, ops, plan) = decode_all(bytes);
        let fp = fnv64(format!("{:?}", (&nt, &ops, &plan)).as_bytes());
        let mut obs = Obs { pop_then_use: false, grew: false, alias_write: false, remove_then_use: false, zero_hash: false };
        let mut fail = run_history(nt, &ops, &mut obs);
        let mut labels = vec![];
        let mut execs = 1;
        if plan.on && fail.is_none() {
            match run_script(nt, &ops, &plan, &mut labels) {
                Ok(f) => {
                    labels.push("script_family".to_string());
                    execs += 1;
                    fail = f;
                }
                Err(w) => labels.push(format!("script_discarded:{}", w)),
            }
        }
        for (b, l) in [
            (obs.pop_then_use, "pop_then_use"),
            (obs.grew, "grew"),
            (obs.alias_write, "alias_write"),
            (obs.remove_then_use, "remove_then_use"),
            (obs.zero_hash, "zero_hash_key"),
        ] {
            if b {
                labels.push(l.to_string());
            }
        }
        CaseOut {
            verdict: match fail {
                Some(f) => Verdict::Fail(f),
                None => Verdict::Pass,
            },
            nontrivial: obs.pop_then_use || obs.grew || obs.alias_write || obs.remove_then_use,
            labels,
            fingerprint: fp,
            execs,
        }
    }
    fn label_floors(&self) -> Vec<(&'static str, f64)> {
        vec![("pop_then_use", 0.2), ("grew", 0.05), ("alias_write", 0.03), ("script_family", 0.02), ("script_path:captured", 0.01), ("script_path:fn_param", 0.01)]
    }
}
