//! C07 — tables are insertion-ordered maps keyed by value (host-API path; the script path lives
//! in the program-level checks and reuses the same model).
//!
//! Histories over 1..4 tables with aliasing (a table stored as a field of another and mutated
//! through it). Oracle: `Vec<(key, value)>` with linear search, compared after every op.

use crate::choice::{fnv64, Choices};
use crate::engine::{CaseOut, Failure, Property, Tier, Verdict};
use crate::mval::*;
use cao_lang::prelude::*;
use cao_lang::vm::runtime::RuntimeData;
use serde_json::{json, Value as J};
use std::sync::OnceLock;

pub struct C07;

/// i64 keys whose 8 little-endian bytes hash to the reserved value 0 under the table's FNV-1a-32
pub const ZERO_HASH_INTS: [i64; 3] = [3291555020, 3416215008, 18968950753];

fn fnv32(bytes: &[u8]) -> u64 {
    let mut h: u64 = 2166136261;
    for b in bytes {
        h ^= *b as u64;
        h &= 0xffff_ffff;
        h = h.wrapping_mul(16777619);
    }
    h & 0xffff_ffff
}

const CAPS: [usize; 5] = [8, 12, 18, 27, 40];

/// ints grouped by identical home slot at each capacity of a table's growth sequence
fn int_groups() -> &'static Vec<Vec<i64>> {
    static P: OnceLock<Vec<Vec<i64>>> = OnceLock::new();
    P.get_or_init(|| {
        let mut out = vec![];
        for cap in CAPS {
            let mut by_home: Vec<Vec<i64>> = vec![vec![]; cap];
            for i in 100i64..6000 {
                let h = fnv32(&i.to_le_bytes());
                let hm = (h.wrapping_mul(2654435769) as usize) % cap;
                if by_home[hm].len() < 5 {
                    by_home[hm].push(i);
                }
            }
            let occ: Vec<usize> = (0..cap).filter(|s| by_home[*s].len() >= 5).collect();
            out.push(by_home[*occ.last().unwrap()].clone());
            out.push(by_home[occ[0]].clone());
        }
        out
    })
}

#[derive(Debug, Clone)]
enum Op {
    Set(usize, MV, i64),
    Get(usize, MV),
    Append(usize, i64),
    Pop(usize),
    Len(usize),
    NthKey(usize, usize),
    Iter(usize),
    Remove(usize, MV),
    /// outer[key] = inner table
    StoreAlias(usize, MV, usize),
    /// fetch outer[key]; if it is a table: set k=v through it
    SetViaAlias(usize, MV, MV, i64),
    /// t = a second handle of the same object obtained by a get from an outer table
    AppendViaAlias(usize, MV, i64),
}

fn gen_key(c: &mut Choices) -> MV {
    match c.weighted(&[30, 14, 12, 14, 4, 4, 6, 8]) {
        0 => MV::Int(c.range(0, 12)),
        1 => {
            let g = int_groups();
            let grp = &g[c.draw(g.len())];
            MV::Int(grp[c.draw(grp.len())])
        }
        2 => MV::Real(*c.pick(&[1.0, 2.0, 0.5, -1.5, 3.25, 1e10, 5e-324, 9007199254740992.0])),
        3 => MV::Str(c.pick(&STR_POOL).to_string()),
        4 => MV::Nil,
        5 => MV::Int(*c.pick(&ZERO_HASH_INTS)),
        6 => MV::Int(*c.pick(&[-1, -2, i64::MAX, i64::MIN, 1 << 53, (1 << 53) + 1])),
        _ => MV::Int(c.range(0, 60)),
    }
}

fn decode(bytes: &[u8]) -> (usize, Vec<Op>) {
    let mut c = Choices::new(bytes);
    let nt = 1 + c.draw(4);
    let n = c.draw(121);
    let mut ops = vec![];
    let mut val = 0;
    for _ in 0..n {
        if c.exhausted() {
            break;
        }
        val += 1;
        let t = c.draw(nt);
        let op = match c.weighted(&[26, 8, 16, 12, 2, 5, 4, 8, 4, 4, 4]) {
            0 => Op::Set(t, gen_key(&mut c), val),
            1 => Op::Get(t, gen_key(&mut c)),
            2 => Op::Append(t, val),
            3 => Op::Pop(t),
            4 => Op::Len(t),
            5 => Op::NthKey(t, c.draw(14)),
            6 => Op::Iter(t),
            7 => Op::Remove(t, gen_key(&mut c)),
            8 => Op::StoreAlias(t, gen_key(&mut c), c.draw(nt)),
            9 => Op::SetViaAlias(t, gen_key(&mut c), gen_key(&mut c), val),
            _ => Op::AppendViaAlias(t, gen_key(&mut c), val),
        };
        ops.push(op);
    }
    (nt, ops)
}

#[derive(Debug, Clone, PartialEq)]
enum MVal {
    Int(i64),
    Table(usize),
}

type MTable = Vec<(MV, MVal)>;

fn mfind(t: &MTable, k: &MV) -> Option<usize> {
    t.iter().position(|(ek, _)| ek.model_eq(k))
}

fn mset(t: &mut MTable, k: &MV, v: MVal) {
    match mfind(t, k) {
        Some(i) => t[i].1 = v,
        None => t.push((k.clone(), v)),
    }
}

fn mappend(t: &mut MTable, v: MVal) -> MV {
    let mut idx = t.len() as i64;
    while mfind(t, &MV::Int(idx)).is_some() {
        idx += 1;
    }
    t.push((MV::Int(idx), v));
    MV::Int(idx)
}

struct Obs {
    pop_then_use: bool,
    grew: bool,
    alias_write: bool,
    remove_then_use: bool,
    zero_hash: bool,
}

fn key_is_equal(v: Value, m: &MV) -> bool {
    MV::from_value(v).model_eq(m)
}

fn run_history(nt: usize, ops: &[Op], obs: &mut Obs) -> Option<Failure> {
    let mut vm = Vm::new(()).expect("vm");
    vm.runtime_data = RuntimeData::new(64 << 20, 256, 256).expect("runtime");
    let mut tables: Vec<Value> = vec![];
    for _ in 0..nt {
        tables.push(Value::Object(vm.init_table().expect("init_table").into_inner()));
    }
    let mut model: Vec<MTable> = vec![vec![]; nt];
    let mut popped_or_removed = vec![false; nt];
    let mk = |step: usize, op: &str, clause: &str, detail: String| {
        Some(Failure::new(clause, &format!("tbl:{}:{}", op, clause), format!("step {} ({}): {}", step, op, detail)))
    };
    fn table_of<'a>(v: Value) -> &'a mut CaoLangTable {
        <&mut CaoLangTable>::try_from(v).ok().expect("table value")
    }
    let to_model_val = |v: Option<Value>, tables: &Vec<Value>| -> Option<MVal> {
        match v {
            None => None,
            Some(Value::Integer(i)) => Some(MVal::Int(i)),
            Some(Value::Object(o)) => tables.iter().position(|t| matches!(t, Value::Object(p) if *p == o)).map(MVal::Table),
            Some(_) => Some(MVal::Int(i64::MIN)),
        }
    };

    for (step, op) in ops.iter().enumerate() {
        let mut touched: Vec<usize> = vec![];
        match op {
            Op::Set(t, k, v) => {
                if let MV::Int(i) = k {
                    if ZERO_HASH_INTS.contains(i) {
                        obs.zero_hash = true;
                    }
                }
                let kv = materialize(&mut vm, k).unwrap();
                if let Err(e) = table_of(tables[*t]).insert(kv, Value::Integer(*v)) {
                    return mk(step, "set", "insert_ok", format!("{:?}", e));
                }
                mset(&mut model[*t], k, MVal::Int(*v));
                touched.push(*t);
            }
            Op::Get(t, k) => {
                let kv = materialize(&mut vm, k).unwrap();
                let got = to_model_val(table_of(tables[*t]).get(&kv).copied(), &tables);
                let exp = mfind(&model[*t], k).map(|i| model[*t][i].1.clone());
                if got != exp {
                    let clause = if popped_or_removed[*t] && exp.is_none() { "removed_key_absent" } else { "get_result" };
                    return mk(step, "get", clause, format!("t{}[{}] = {:?} expected {:?}", t, k.to_json(), got, exp));
                }
            }
            Op::Append(t, v) => {
                if let Err(e) = table_of(tables[*t]).append(Value::Integer(*v)) {
                    return mk(step, "append", "append_ok", format!("{:?}", e));
                }
                let key = mappend(&mut model[*t], MVal::Int(*v));
                // the appended entry must be the last one and carry the model's key
                let last = table_of(tables[*t]).keys().last().copied();
                match last {
                    Some(k) if key_is_equal(k, &key) => {}
                    other => {
                        let clause = if popped_or_removed[*t] { "append_key_after_pop" } else { "append_key" };
                        return mk(step, "append", clause, format!("appended under key {:?} expected {}", other.map(|k| MV::from_value(k).to_json()), key.to_json()));
                    }
                }
                touched.push(*t);
            }
            Op::Pop(t) => {
                let exp = model[*t].pop().map(|(_, v)| v);
                let got = match table_of(tables[*t]).pop() {
                    Ok(v) => v,
                    Err(e) => return mk(step, "pop", "pop_ok", format!("{:?}", e)),
                };
                let gotm = if matches!(got, Value::Nil) { None } else { to_model_val(Some(got), &tables) };
                if gotm != exp {
                    return mk(step, "pop", "pop_result", format!("pop -> {:?} expected {:?}", gotm, exp));
                }
                popped_or_removed[*t] = true;
                obs.pop_then_use = true;
                touched.push(*t);
            }
            Op::Len(_) | Op::Iter(_) => {}
            Op::NthKey(t, i) => {
                let got = MV::from_value(table_of(tables[*t]).nth_key(*i));
                let exp = model[*t].get(*i).map(|(k, _)| k.clone()).unwrap_or(MV::Nil);
                if !got.model_eq(&exp) && !(matches!(got, MV::Nil) && matches!(exp, MV::Nil)) {
                    return mk(step, "nth_key", "nth_key_result", format!("nth_key({}) = {} expected {}", i, got.to_json(), exp.to_json()));
                }
            }
            Op::Remove(t, k) => {
                let kv = materialize(&mut vm, k).unwrap();
                if let Err(e) = table_of(tables[*t]).remove(kv) {
                    return mk(step, "remove", "remove_ok", format!("{:?}", e));
                }
                if let Some(i) = mfind(&model[*t], k) {
                    model[*t].remove(i);
                    popped_or_removed[*t] = true;
                    obs.remove_then_use = true;
                }
                touched.push(*t);
            }
            Op::StoreAlias(outer, k, inner) => {
                let kv = materialize(&mut vm, k).unwrap();
                if let Err(e) = table_of(tables[*outer]).insert(kv, tables[*inner]) {
                    return mk(step, "store_alias", "insert_ok", format!("{:?}", e));
                }
                mset(&mut model[*outer], k, MVal::Table(*inner));
                touched.push(*outer);
            }
            Op::SetViaAlias(outer, k, k2, v) => {
                let kv = materialize(&mut vm, k).unwrap();
                let fetched = table_of(tables[*outer]).get(&kv).copied();
                let exp = mfind(&model[*outer], k).map(|i| model[*outer][i].1.clone());
                if to_model_val(fetched, &tables) != exp {
                    return mk(step, "via_alias", "get_result", format!("t{}[{}] = {:?} expected {:?}", outer, k.to_json(), to_model_val(fetched, &tables), exp));
                }
                if let (Some(MVal::Table(inner)), Some(fv)) = (exp, fetched) {
                    let k2v = materialize(&mut vm, k2).unwrap();
                    if let Err(e) = table_of(fv).insert(k2v, Value::Integer(*v)) {
                        return mk(step, "via_alias", "insert_ok", format!("{:?}", e));
                    }
                    mset(&mut model[inner], k2, MVal::Int(*v));
                    obs.alias_write = true;
                    touched.push(inner);
                }
            }
            Op::AppendViaAlias(outer, k, v) => {
                let kv = materialize(&mut vm, k).unwrap();
                let fetched = table_of(tables[*outer]).get(&kv).copied();
                let exp = mfind(&model[*outer], k).map(|i| model[*outer][i].1.clone());
                if let (Some(MVal::Table(inner)), Some(fv)) = (exp, fetched) {
                    if to_model_val(Some(fv), &tables) != Some(MVal::Table(inner)) {
                        return mk(step, "via_alias", "alias_identity", format!("t{}[{}] is not the stored table", outer, k.to_json()));
                    }
                    if let Err(e) = table_of(fv).append(Value::Integer(*v)) {
                        return mk(step, "via_alias", "append_ok", format!("{:?}", e));
                    }
                    mappend(&mut model[inner], MVal::Int(*v));
                    obs.alias_write = true;
                    touched.push(inner);
                }
            }
        }
        // after every op: every table agrees with its model (len, iteration order, keys(), get of every key)
        for t in 0..nt {
            let tb = table_of(tables[t]);
            let m = &model[t];
            if tb.len() != m.len() || tb.is_empty() != m.is_empty() {
                let clause = if popped_or_removed[t] { "len_after_pop" } else { "len" };
                return mk(step, "any", clause, format!("after {:?}: t{}.len() = {} expected {}", op, t, tb.len(), m.len()));
            }
            if m.len() >= 9 {
                obs.grew = true;
            }
            let entries: Vec<(Value, Value)> = tb.iter().map(|(k, v)| (*k, *v)).collect();
            if entries.len() != m.len() {
                return mk(step, "any", "iter_visits_each_once", format!("after {:?}: iter over t{} yields {} entries expected {}", op, t, entries.len(), m.len()));
            }
            for (i, ((k, v), (mk_, mv))) in entries.iter().zip(m.iter()).enumerate() {
                if !key_is_equal(*k, mk_) || to_model_val(Some(*v), &tables).as_ref() != Some(mv) {
                    return mk(step, "any", "iter_order", format!("after {:?}: t{} entry #{} is ({}, {:?}) expected ({}, {:?})", op, t, i, MV::from_value(*k).to_json(), to_model_val(Some(*v), &tables), mk_.to_json(), mv));
                }
            }
            let keys = tb.keys();
            if keys.len() != m.len() || keys.iter().zip(m.iter()).any(|(k, (mk_, _))| !key_is_equal(*k, mk_)) {
                return mk(step, "any", "keys_order", format!("after {:?}: keys() of t{} disagree with the model", op, t));
            }
            for (i, (mk_, mv)) in m.iter().enumerate() {
                // read through a *fresh* equal key (distinct string object)
                let kv = materialize(&mut vm, mk_).unwrap();
                let got = to_model_val(table_of(tables[t]).get(&kv).copied(), &tables);
                if got.as_ref() != Some(mv) {
                    return mk(step, "any", "present_key_found", format!("after {:?}: t{}[{}] = {:?} expected {:?}", op, t, mk_.to_json(), got, mv));
                }
                let nk = table_of(tables[t]).nth_key(i);
                if !key_is_equal(nk, mk_) {
                    return mk(step, "any", "nth_key_result", format!("after {:?}: t{}.nth_key({}) = {} expected {}", op, t, i, MV::from_value(nk).to_json(), mk_.to_json()));
                }
            }
        }
        let _ = touched;
    }
    None
}

impl Property for C07 {
    fn id(&self) -> &'static str {
        "C07"
    }
    fn rule(&self) -> &'static str {
        "case = history of <=120 ops (set get append pop len nth_key iter remove store-table-as-field write-through-field) over 1..4 tables created with Vm::init_table, keys from a pool built to collide and to probe equality (small ints, ints with identical home slots at capacities 8/12/18/27/40, ints whose hash is the reserved 0, ints >= 2^53, negative, finite non-zero reals, strings re-created as distinct objects for every lookup, nil); reference = Vec<(key,value)> with linear search compared after EVERY op on EVERY table: len, iteration order of keys and values, keys(), nth_key, get of every present key through a fresh equal key; results of get/pop/append-key. non-trivial = a pop or remove was followed by further ops on that table, or a table held >= 9 keys (one growth), or a write went through an alias; distinct by hash of the decoded history"
    }
    fn assumptions(&self) -> Vec<String> {
        vec!["host path only in this check; the script path (SetProperty/GetProperty/AppendTable/PopTable/Len/Get/ForEach cards) is exercised by the program-level checks with the same model".into()]
    }
    fn max_len(&self) -> usize {
        900
    }
    fn quick_cases(&self) -> u64 {
        1_600_000
    }
    fn states_termination(&self) -> bool {
        true
    }
    fn case_timeout(&self) -> std::time::Duration {
        std::time::Duration::from_secs(30)
    }
    fn describe(&self, bytes: &[u8]) -> J {
        let (nt, ops) = decode(bytes);
        json!({"tables": nt, "ops": ops.iter().map(|o| format!("{:?}", o)).collect::<Vec<_>>()})
    }
    fn run(&self, bytes: &[u8], _tier: Tier) -> CaseOut {
        let (nt, ops) = decode(bytes);
        let fp = fnv64(format!("{:?}", (&nt, &ops)).as_bytes());
        let mut obs = Obs { pop_then_use: false, grew: false, alias_write: false, remove_then_use: false, zero_hash: false };
        let fail = run_history(nt, &ops, &mut obs);
        let mut labels = vec![];
        for (b, l) in [
            (obs.pop_then_use, "pop_then_use"),
            (obs.grew, "grew"),
            (obs.alias_write, "alias_write"),
            (obs.remove_then_use, "remove_then_use"),
            (obs.zero_hash, "zero_hash_key"),
        ] {
            if b {
                labels.push(l.to_string());
            }
        }
        CaseOut {
            verdict: match fail {
                Some(f) => Verdict::Fail(f),
                None => Verdict::Pass,
            },
            nontrivial: obs.pop_then_use || obs.grew || obs.alias_write || obs.remove_then_use,
            labels,
            fingerprint: fp,
            execs: 1,
        }
    }
    fn label_floors(&self) -> Vec<(&'static str, f64)> {
        vec![("pop_then_use", 0.2), ("grew", 0.05), ("alias_write", 0.03)]
    }
}
