//! C02 — garbage collection never invalidates a value the program can still use.
//!
//! Programs biased to allocation-heavy shapes (string and table temporaries as operands of
//! SetProperty / AppendTable / row access, closures whose only reference is the call in
//! progress, captured variables holding strings and tables, natives that allocate and re-enter,
//! std functions with allocating key functions) x GC schedules (hook): Never (baseline), Every,
//! each single allocation point, random subsets, and the natural trigger under a tiny limit.
//! Swept objects are quarantined and poisoned (hook), so a stale reference is recognised
//! deterministically instead of being undefined behaviour.
//! Oracles: (1) schedule differential: observation under every schedule == observation without
//! collections; (2) heap audit after the run: nothing reachable from the value stack, the
//! globals, tables, closures and their upvalues is a swept object; (3) no crash (isolated
//! workers).

use crate::choice::{fnv64, Choices};
use crate::engine::{CaseOut, Failure, Property, Tier, Verdict};
use crate::genprog::{gen_program, GenCfg};
use crate::ir::*;
use crate::observe::*;
use cao_lang::prelude::*;
use cao_lang::verif::{self, GcSchedule};
use serde_json::{json, Value as J};
use std::collections::BTreeSet;

pub struct C02;

pub fn cfg() -> GenCfg {
    GenCfg {
        max_funcs: 4,
        budget: 100,
        closures: 6,
        tables: 9,
        natives: 5,
        reentry: 3,
        expr_stmt: 0,
        errors: 0,
        wide_globals: false,
        return_in_main: false,
        abort: false,
        closure_bias: false,
        submodule: false,
    }
}

/// a table holding a key that can not be found again (a table changed after it was used as a
/// key, or a closure), whose only other reference is then dropped; garbage; then the table is
/// walked. The key object is still referenced by the table (ordered key list and bucket).
fn unfindable_key_program(c: &mut Choices) -> Program {
    use std::rc::Rc;
    let var = |n: &str| Expr::Var(n.into());
    let int = |i: i64| Expr::Int(i);
    let mk = |n: i64| Expr::CallNative("mk_str".into(), vec![Expr::Int(n)]);
    let mut body = vec![Stmt::SetVar("t".into(), Expr::CreateTable), Stmt::SetVar("k".into(), Expr::CreateTable)];
    let closure_key = c.chance(60);
    if closure_key {
        body[1] = Stmt::SetVar("k".into(), Expr::Closure(Rc::new(ClosureDef { id: 0, params: vec![], body: vec![Stmt::Return(int(1))] })));
    }
    if c.bool() {
        body.push(Stmt::SetProp(mk(5), var("t"), int(1)));
    }
    body.push(Stmt::SetProp(mk(7), var("t"), var("k")));
    if !closure_key {
        body.push(Stmt::SetProp(int(2), var("k"), Expr::Str("x".into())));
    }
    if c.bool() {
        body.push(Stmt::SetProp(mk(6), var("t"), int(2)));
    }
    body.push(Stmt::SetGlobal("keep_unfindable".into(), var("t")));
    body.push(Stmt::SetVar("k".into(), int(0)));
    let n = 1 + c.draw(12) as i64;
    body.push(Stmt::Repeat(int(n), None, Box::new(Stmt::SetGlobal("sink_".into(), mk(20)))));
    match c.draw(4) {
        0 => body.push(Stmt::ForEach { i: Some("i".into()), k: Some("kk".into()), v: Some("vv".into()), iterable: var("t"), body: Box::new(crate::genprog::log_stmt(Expr::Len(Box::new(var("kk"))))) }),
        1 => body.push(Stmt::Repeat(int(3), Some("i".into()), Box::new(crate::genprog::log_stmt(Expr::Get(Box::new(var("t")), Box::new(var("i"))))))),
        2 => body.push(crate::genprog::log_stmt(Expr::PopTable(Box::new(var("t"))))),
        _ => body.push(crate::genprog::log_stmt(Expr::Call("std.to_array".into(), usize::MAX, vec![var("t")]))),
    }
    body.push(crate::genprog::log_stmt(Expr::Len(Box::new(var("t")))));
    Program {
        funcs: vec![FuncDef { id: 0, name: "main".into(), module: vec![], params: vec![], body }],
        root: ModuleDef { name: String::new(), functions: vec![0], submodules: vec![], imports: vec![] },
        globals: vec!["keep_unfindable".into(), "sink_".into()],
    }
}

fn decode(bytes: &[u8]) -> (Program, Vec<u8>) {
    if (215..230).contains(&bytes.first().copied().unwrap_or(0)) {
        let mut c = Choices::new(&bytes[1..]);
        let p = unfindable_key_program(&mut c);
        let sched: Vec<u8> = bytes.iter().rev().take(24).copied().collect();
        return (p, sched);
    }
    let mut c = Choices::new(bytes);
    if c.chance(70) {
        // std-library programs: natives that re-enter the VM for allocating key functions and
        // build their result tables while collections may run
        let rest: Vec<u8> = bytes.iter().skip(1).copied().collect();
        let (p, _) = crate::props::c09::decode(&rest);
        let sched: Vec<u8> = bytes.iter().rev().take(24).copied().collect();
        return (p, sched);
    }
    let mut cfg = cfg();
    cfg.closure_bias = c.bool();
    let p = gen_program(&mut c, &cfg);
    // bytes that drive the random schedules
    let sched: Vec<u8> = (0..24).map(|_| c.byte()).collect();
    (p, sched)
}

struct RunOut {
    obs: Obs,
    allocs: u64,
    collections: u64,
    audit: Option<String>,
}

/// walk everything the host can still reach after the run and look for swept objects
fn audit(vm: &Vm<Host>) -> Option<String> {
    use cao_lang::verif::inspect;
    let rt = &*vm.runtime_data;
    let mut work: Vec<(Value, String)> = vec![];
    for (i, v) in inspect::value_stack(rt).into_iter().enumerate() {
        work.push((v, format!("stack[{}]", i)));
    }
    for (i, v) in inspect::globals(rt).into_iter().enumerate() {
        work.push((v, format!("global#{}", i)));
    }
    audit_roots(work)
}

/// walk everything reachable from the given values and look for swept objects
pub fn audit_roots(mut work: Vec<(Value, String)>) -> Option<String> {
    let mut seen: BTreeSet<usize> = BTreeSet::new();
    while let Some((v, path)) = work.pop() {
        let Value::Object(o) = v else { continue };
        if !seen.insert(o.as_ptr() as usize) {
            continue;
        }
        let obj = unsafe { o.as_ref() };
        if verif::is_poisoned(obj) {
            return Some(format!("{} is a swept object", path));
        }
        if let Some(t) = obj.as_table() {
            for (n, (k, val)) in t.iter().enumerate() {
                work.push((*k, format!("{}.key#{}", path, n)));
                work.push((*val, format!("{}[{}]", path, crate::mval::MV::from_value(*k).to_json())));
            }
            // the ordered key list must not hold swept objects either
            for (n, k) in t.keys().iter().enumerate() {
                work.push((*k, format!("{}.keys[{}]", path, n)));
            }
        } else if let Some(c) = obj.as_closure() {
            for (n, u) in c.upvalues.iter().enumerate() {
                work.push((Value::Object(*u), format!("{}.upvalue#{}", path, n)));
            }
        } else if let Some(u) = obj.as_upvalue() {
            if !u.location.is_null() {
                let inner = unsafe { *u.location };
                work.push((inner, format!("{}.captured", path)));
            }
        }
        if seen.len() > 20_000 {
            break;
        }
    }
    None
}

fn run_with(prog: &CaoCompiledProgram, globals: &[String], schedule: GcSchedule, mem_limit: usize) -> RunOut {
    let cfg = RunCfg { max_instr: 100_000, mem_limit, ..RunCfg::default() };
    let mut vm = new_vm(&cfg);
    vm.runtime_data.verif_quarantine = true;
    {
        let h = verif::alloc_hooks(&vm.runtime_data);
        h.schedule = schedule;
        h.alloc_index = 0;
        h.collections = 0;
    }
    let obs = run_on(&mut vm, prog, globals);
    let (allocs, collections) = {
        let h = verif::alloc_hooks(&vm.runtime_data);
        (h.alloc_index, h.collections)
    };
    let audit = audit(&vm);
    RunOut { obs, allocs, collections, audit }
}

fn obs_diff(a: &Obs, b: &Obs) -> Option<(String, String)> {
    if a.outcome != b.outcome {
        return Some(("outcome".into(), format!("without collections {:?}, with {:?}", a.outcome, b.outcome)));
    }
    if let Some(d) = log_eq(&b.log, &a.log) {
        return Some(("host_log".into(), d.replace("vm ", "with collections ").replace("reference", "without")));
    }
    for (k, v) in &a.globals {
        let w = b.globals.get(k).cloned().unwrap_or(crate::mval::MV::Nil);
        if !w.obs_eq(v) {
            return Some(("globals".into(), format!("global {}: without collections {}, with {}", k, v.to_json(), w.to_json())));
        }
    }
    None
}

impl Property for C02 {
    fn id(&self) -> &'static str {
        "C02"
    }
    fn level(&self) -> &'static str {
        "fault_enumeration"
    }
    fn rule(&self) -> &'static str {
        "case = generated allocation-heavy program (tables and strings as temporaries and operands, closures called on the spot, captured strings/tables, re-entering and allocating natives) x collection schedules forced through the allocator hook at the points where the natural trigger can fire: Never (baseline), Every allocation, EVERY single allocation index (exhaustive when the baseline made <= 48 allocation requests, else 48 drawn indices), two random subsets, plus the natural trigger under a memory limit of 3x the baseline's peak; swept objects are quarantined with a poison header. Oracles: observation (outcome, globals, host log) under every schedule equals the baseline; after each run nothing reachable from value stack / globals / table entries and key lists / closure upvalues / captured cells is a swept object. non-trivial = a collection ran while the program still had >= 1 heap object alive and the baseline made >= 3 allocations; distinct by hash of the program"
    }
    fn assumptions(&self) -> Vec<String> {
        vec![
            "a forced collection calls the same RuntimeData::gc at the same place in the allocator as the natural trigger".into(),
            "quarantine changes only what happens to swept object headers (kept, poisoned); bodies and accounting are released as usual".into(),
            "real use-after-free of string bytes / table storage is turned into a poisoned-object read by the quarantine; ASan confirmation is left to the fuzz target".into(),
        ]
    }
    fn max_len(&self) -> usize {
        1600
    }
    fn quick_cases(&self) -> u64 {
        96_000
    }
    fn states_termination(&self) -> bool {
        true
    }
    fn describe(&self, bytes: &[u8]) -> J {
        program_json(&decode(bytes).0)
    }
    fn structured(&self, bytes: &[u8]) -> Option<J> {
        let (p, s) = decode(bytes);
        Some(json!({"program": serde_json::to_value(p).ok()?, "sched": s}))
    }
    fn run_structured(&self, case: &J, _tier: Tier) -> Option<CaseOut> {
        let prog: Program = serde_json::from_value(case["program"].clone()).ok()?;
        let sched: Vec<u8> = serde_json::from_value(case["sched"].clone()).ok()?;
        Some(run_case(&prog, &sched))
    }
    fn run(&self, bytes: &[u8], _tier: Tier) -> CaseOut {
        if bytes.first().copied().unwrap_or(0) >= 230 {
            return host_case(&bytes[1..]);
        }
        let (p, s) = decode(bytes);
        run_case(&p, &s)
    }
    /// one case is up to ~55 complete runs of a program, several of them with a collection at
    /// every allocation: tens of CPU seconds for allocation-heavy programs on a busy machine
    fn case_timeout(&self) -> std::time::Duration {
        std::time::Duration::from_secs(150)
    }
    fn crash_context(&self, _bytes: &[u8]) -> String {
        ":gc".into()
    }
    fn label_floors(&self) -> Vec<(&'static str, f64)> {
        vec![("allocs>=8", 0.3), ("collected_live", 0.3)]
    }
}

fn to_owned(m: &crate::mval::MV) -> OwnedValue {
    use crate::mval::MV;
    match m {
        MV::Nil | MV::Func(..) => OwnedValue::Nil,
        MV::Int(i) => OwnedValue::Integer(*i),
        MV::Real(r) => OwnedValue::Real(*r),
        MV::Str(s) => OwnedValue::String(s.clone()),
        MV::Table(t) => OwnedValue::Table(t.iter().map(|(k, v)| OwnedEntry { key: to_owned(k), value: to_owned(v) }).collect()),
    }
}

/// host API family: Vm::insert_value builds nested tables through guards while collections run
fn host_case(bytes: &[u8]) -> CaseOut {
    use crate::mval::{ValGen, MV};
    let mut c = Choices::new(bytes);
    let g = ValGen { allow_nan: false, allow_func: false, max_depth: 4, max_entries: 8 };
    let mv = g.gen(&mut c, 0);
    let owned = to_owned(&mv);
    let fp = fnv64(format!("{:?}", mv).as_bytes());
    let mut labels = vec!["host_insert_value".to_string()];
    let mk = |clause: &str, d: String| CaseOut {
        verdict: Verdict::Fail(Failure::new(clause, &format!("c02:{}", clause), d)),
        nontrivial: false,
        labels: vec![],
        fingerprint: fp,
        execs: 1,
    };
    let run = |schedule: GcSchedule| -> (Result<MV, String>, u64, u64, Option<String>) {
        let mut vm = new_vm(&RunCfg::default());
        vm.runtime_data.verif_quarantine = true;
        {
            let h = verif::alloc_hooks(&vm.runtime_data);
            h.schedule = schedule;
            h.alloc_index = 0;
            h.collections = 0;
        }
        let r = vm.insert_value(&owned);
        let (allocs, colls) = {
            let h = verif::alloc_hooks(&vm.runtime_data);
            (h.alloc_index, h.collections)
        };
        match r {
            Ok(v) => {
                // keep it reachable for the audit
                let _ = vm.stack_push(v);
                let a = audit(&vm);
                (Ok(MV::from_value(v)), allocs, colls, a)
            }
            Err(e) => (Err(format!("{:?}", e)), allocs, colls, None),
        }
    };
    let (base, n, _, a0) = run(GcSchedule::Never);
    let base = match base {
        Ok(b) => b,
        Err(e) => return mk("insert_value_ok", e),
    };
    if let Some(a) = a0 {
        return mk("heap_audit", format!("baseline: {}", a));
    }
    let mut execs = 1;
    let mut schedules = vec![("every".to_string(), GcSchedule::Every)];
    for i in 0..n.min(40) {
        schedules.push((format!("at{{{}}}", i), GcSchedule::At([i].into_iter().collect())));
    }
    let mut collected = false;
    for (name, s) in schedules {
        let (r, _, colls, a) = run(s);
        execs += 1;
        collected |= colls > 0;
        match r {
            Ok(m) if m.obs_eq(&base) => {}
            Ok(m) => return mk("schedule_independent_value", format!("schedule {}: insert_value gave {} instead of {}", name, m.to_json(), base.to_json())),
            Err(e) => return mk("insert_value_ok", format!("schedule {}: {}", name, e)),
        }
        if let Some(a) = a {
            return mk("heap_audit", format!("schedule {}: {}", name, a));
        }
    }
    let nontrivial = collected && n >= 3;
    if nontrivial {
        labels.push("collected_live".into());
    }
    if n >= 8 {
        labels.push("allocs>=8".into());
    }
    CaseOut { verdict: Verdict::Pass, nontrivial, labels, fingerprint: fp, execs }
}

fn run_case(prog: &Program, sched_bytes: &[u8]) -> CaseOut {
    let fp = fnv64(format!("{:?}", prog).as_bytes());
    let mut labels = vec![];
    let mk = |clause: &str, d: String| CaseOut {
        verdict: Verdict::Fail(Failure::new(clause, &format!("c02:{}", clause), d)),
        nontrivial: false,
        labels: vec![],
        fingerprint: fp,
        execs: 1,
    };
    // programs the reference interpreter cannot finish with a small fuel (loops that grow the table
    // they iterate, ...) would be re-run dozens of times with a collection per allocation: skip
    let r = crate::refsem::run_reference(prog, 20_000);
    // (what a table / function key *means* is not defined, but a collection must not free an
    // object the table still references: those programs stay in, judged by the differential and
    // the heap audit only)
    if let Err(crate::refsem::ErrKind::Undefined(w)) = &r.outcome.as_ref().map_err(|e| match e {
        crate::refsem::ErrKind::Undefined(w) if (*w == "table_key" || *w == "function_key") && prog.globals.iter().any(|g| g == "keep_unfindable") => crate::refsem::ErrKind::InvalidArgument,
        other => other.clone(),
    }) {
        return CaseOut { verdict: Verdict::Discard(w), nontrivial: false, labels, fingerprint: fp, execs: 0 };
    }
    let compiled = match compile_program(prog) {
        Ok(c) => c,
        Err(e) => return mk("compiles", format!("{}", e)),
    };
    let big = 256usize << 20;
    let base = run_with(&compiled, &prog.globals, GcSchedule::Never, big);
    let mut execs = 1;
    if base.collections != 0 {
        return mk("baseline_without_collections", format!("{} collections ran under the Never schedule", base.collections));
    }
    if let Some(a) = &base.audit {
        return mk("heap_audit", format!("baseline: {}", a));
    }
    let n = base.allocs;
    if n >= 8 {
        labels.push("allocs>=8".into());
    }
    if n == 0 {
        return CaseOut { verdict: Verdict::Pass, nontrivial: false, labels, fingerprint: fp, execs };
    }
    let mut c = Choices::new(sched_bytes);
    let mut schedules: Vec<(String, GcSchedule)> = vec![("every".into(), GcSchedule::Every)];
    if n <= 48 {
        labels.push("exhaustive_single_points".into());
        for i in 0..n {
            schedules.push((format!("at{{{}}}", i), GcSchedule::At([i].into_iter().collect())));
        }
    } else {
        for _ in 0..48 {
            let i = c.draw(n as usize) as u64;
            schedules.push((format!("at{{{}}}", i), GcSchedule::At([i].into_iter().collect())));
        }
    }
    for _ in 0..2 {
        let set: BTreeSet<u64> = (0..n).filter(|_| c.chance(80)).collect();
        schedules.push((format!("subset{:?}", set.iter().take(8).collect::<Vec<_>>()), GcSchedule::At(set)));
    }
    let mut collected_live = false;
    for (name, s) in schedules {
        let r = run_with(&compiled, &prog.globals, s, big);
        execs += 1;
        if r.collections > 0 && n >= 3 {
            collected_live = true;
        }
        if let Some((clause, d)) = obs_diff(&base.obs, &r.obs) {
            return mk(&format!("schedule_independent_{}", clause), format!("schedule {}: {}", name, d));
        }
        if let Some(a) = r.audit {
            return mk("heap_audit", format!("schedule {}: {}", name, a));
        }
    }
    // the natural trigger: a limit a few times above what the program keeps allocated
    let peak_guess = (n as usize * 200).max(2048);
    let r = run_with(&compiled, &prog.globals, GcSchedule::Natural, peak_guess * 3);
    execs += 1;
    if r.collections > 0 {
        labels.push("natural_trigger_fired".into());
    }
    let oom = matches!(&r.obs.outcome, Err(k) if k.trim_end_matches(')').ends_with("OutOfMemory"));
    if !oom {
        if let Some((clause, d)) = obs_diff(&base.obs, &r.obs) {
            return mk(&format!("schedule_independent_{}", clause), format!("natural trigger under limit {}: {}", peak_guess * 3, d));
        }
    } else {
        labels.push("oom_under_small_limit".into());
    }
    if let Some(a) = r.audit {
        return mk("heap_audit", format!("natural trigger: {}", a));
    }
    if collected_live {
        labels.push("collected_live".into());
    }
    CaseOut { verdict: Verdict::Pass, nontrivial: collected_live, labels, fingerprint: fp, execs }
}
