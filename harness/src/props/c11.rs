//! C11 — serialization round-trips preserve programs and values.
//!
//! (a) Module --json|yaml--> Module': compile(Module') must equal compile(Module) (byte-identical
//!     bytecode and data, equal labels / variables / traces as maps) or fail the same way;
//! (b) CaoCompiledProgram --json|cbor|bincode--> program': field-wise equal as maps, passes the
//!     independent bytecode verifier, and running it gives the same observation;
//! (c) runtime value -> OwnedValue -> json|cbor|bincode -> OwnedValue' -> inserted into another
//!     VM: deeply equal, table order preserved.

use crate::bcverify::{verify, Features};
use crate::choice::{fnv64, Choices};
use crate::engine::{CaseOut, Failure, Property, Tier, Verdict};
use crate::gencards::CardGen;
use crate::genprog::{gen_program, GenCfg};
use crate::ir::lower;
use crate::mval::*;
use crate::observe::*;
use cao_lang::compiler::{compile, Module};
use cao_lang::prelude::*;
use serde_json::{json, Value as J};
use std::collections::BTreeMap;

pub struct C11;

enum Case {
    /// (module, globals to observe, may be executed: well-scoped and inside the defined semantics)
    Source(Module, Vec<String>, bool),
    /// (value, sharing: 0 = a tree, 1 = one sub-table also stored under a second key, 2 = also inside a sibling)
    Value(MV, usize),
}

fn decode(bytes: &[u8]) -> Case {
    let mut c = Choices::new(bytes);
    match c.weighted(&[5, 2, 4]) {
        0 => {
            let mut cfg = GenCfg::default();
            cfg.wide_globals = true;
            let p = gen_program(&mut c, &cfg);
            let g = p.globals.clone();
            // only programs the reference interpreter accepts are executed (no self-referencing
            // tables etc.); the others are still serialized and compared
            let runnable = !matches!(crate::refsem::run_reference(&p, 40_000).outcome, Err(crate::refsem::ErrKind::Undefined(_)));
            Case::Source(lower(&p), g, runnable)
        }
        1 => {
            let mut g = CardGen::new();
            g.max_depth = 3;
            // arbitrary card trees are not well-scoped: compiled and serialized, never executed
            Case::Source(g.module(&mut c, 1), vec![], false)
        }
        _ => {
            let big = c.chance(40);
            let g = ValGen { allow_nan: false, allow_func: false, max_depth: 4, max_entries: if big { 60 } else { 6 } };
            let v = g.gen(&mut c, 0);
            let share = if c.chance(100) { 1 + c.draw(2) } else { 0 };
            Case::Value(v, share)
        }
    }
}

#[derive(PartialEq, Debug)]
struct ProgView {
    bytecode: Vec<u8>,
    data: Vec<u8>,
    version: String,
    labels: BTreeMap<u32, u32>,
    ids: BTreeMap<u32, u32>,
    names: BTreeMap<u32, String>,
    trace: BTreeMap<u32, (Vec<String>, usize, Vec<u32>)>,
}

fn view(p: &CaoCompiledProgram) -> ProgView {
    ProgView {
        bytecode: p.bytecode.clone(),
        data: p.data.clone(),
        version: p.cao_lang_version.clone(),
        labels: p.labels.0.iter().map(|(h, l)| (h.value(), l.pos)).collect(),
        ids: p.variables.ids.iter().map(|(h, id)| (h.value(), bytemuck::cast::<_, u32>(*id))).collect(),
        names: p.variables.names.iter().map(|(h, n)| (h.value(), n.clone())).collect(),
        trace: p
            .trace
            .iter()
            .map(|(k, t)| (*k, (t.namespace.iter().map(|s| s.to_string()).collect(), t.index.function, t.index.card_index.indices.to_vec())))
            .collect(),
    }
}

fn diff(a: &ProgView, b: &ProgView) -> Option<String> {
    if a.bytecode != b.bytecode {
        return Some("bytecode differs".into());
    }
    if a.data != b.data {
        return Some("data differs".into());
    }
    if a.version != b.version {
        return Some("version differs".into());
    }
    if a.labels != b.labels {
        return Some(format!("labels differ: {} vs {} entries", a.labels.len(), b.labels.len()));
    }
    if a.ids != b.ids {
        return Some(format!("variable ids differ: {:?} vs {:?}", a.ids, b.ids));
    }
    if a.names != b.names {
        return Some(format!("variable names differ: {:?} vs {:?}", a.names, b.names));
    }
    if a.trace != b.trace {
        return Some(format!("trace differs: {} vs {} entries", a.trace.len(), b.trace.len()));
    }
    None
}

fn obs_diff(a: &Obs, b: &Obs) -> Option<String> {
    if a.outcome != b.outcome {
        return Some(format!("outcome {:?} vs {:?}", a.outcome, b.outcome));
    }
    if let Some(d) = log_eq(&a.log, &b.log) {
        return Some(d);
    }
    for (k, v) in &a.globals {
        if !b.globals.get(k).map(|w| w.obs_eq(v)).unwrap_or(false) {
            return Some(format!("global {} differs", k));
        }
    }
    None
}

type Codec<T> = (&'static str, fn(&T) -> Result<Vec<u8>, String>, fn(&[u8]) -> Result<T, String>);

fn prog_codecs() -> Vec<Codec<CaoCompiledProgram>> {
    vec![
        ("json", |p| serde_json::to_vec(p).map_err(|e| e.to_string()), |b| serde_json::from_slice(b).map_err(|e| e.to_string())),
        (
            "cbor",
            |p| {
                let mut buf = vec![];
                ciborium::into_writer(p, &mut buf).map_err(|e| e.to_string())?;
                Ok(buf)
            },
            |b| ciborium::from_reader(b).map_err(|e| e.to_string()),
        ),
        (
            "bincode",
            |p| bincode::serde::encode_to_vec(p, bincode::config::standard()).map_err(|e| e.to_string()),
            |b| bincode::serde::decode_from_slice(b, bincode::config::standard()).map(|x| x.0).map_err(|e| e.to_string()),
        ),
    ]
}

fn value_codecs() -> Vec<Codec<OwnedValue>> {
    vec![
        ("json", |p| serde_json::to_vec(p).map_err(|e| e.to_string()), |b| serde_json::from_slice(b).map_err(|e| e.to_string())),
        (
            "cbor",
            |p| {
                let mut buf = vec![];
                ciborium::into_writer(p, &mut buf).map_err(|e| e.to_string())?;
                Ok(buf)
            },
            |b| ciborium::from_reader(b).map_err(|e| e.to_string()),
        ),
        (
            "bincode",
            |p| bincode::serde::encode_to_vec(p, bincode::config::standard()).map_err(|e| e.to_string()),
            |b| bincode::serde::decode_from_slice(b, bincode::config::standard()).map(|x| x.0).map_err(|e| e.to_string()),
        ),
    ]
}

impl Property for C11 {
    fn id(&self) -> &'static str {
        "C11"
    }
    fn rule(&self) -> &'static str {
        "case = a source module (well-scoped generated program incl. the >16-globals class, or an arbitrary card tree) or a runtime value (nil/int/real incl. -0.0 and subnormals/string/tables nested <=4 with up to 60 entries; in 40% of the cases one sub-table object is additionally stored under a second key and inside a sibling table, i.e. shared but acyclic). Source: json and yaml text -> module' -> compile must give byte-identical bytecode/data and map-equal labels/variables/traces (or the same error variant); the compiled program through json, cbor and bincode must come back field-wise equal as maps, pass the independent bytecode verifier and run to the same observation (outcome, globals, host log). Value: value -> OwnedValue -> json|cbor|bincode -> OwnedValue' -> Vm::insert_value in a fresh VM -> deep equality with the original, order preserving. non-trivial = program with >=2 function labels... precisely: >=17 labels and >=1 global, or a value containing a table with >=9 entries or nesting >=2; distinct by hash of the bytecode / value"
    }
    fn assumptions(&self) -> Vec<String> {
        vec!["NaN and infinities are excluded (serde_json cannot represent them); card ids are not part of the serialized form".into()]
    }
    fn max_len(&self) -> usize {
        1600
    }
    fn quick_cases(&self) -> u64 {
        128_000
    }
    fn states_termination(&self) -> bool {
        true
    }
    fn describe(&self, bytes: &[u8]) -> J {
        match decode(bytes) {
            Case::Source(m, _, _) => json!({"module": serde_json::to_value(&m).unwrap_or(J::Null)}),
            Case::Value(v, share) => json!({"value": v.to_json(), "shared_subtables": share}),
        }
    }
    fn run(&self, bytes: &[u8], _tier: Tier) -> CaseOut {
        let mk = |clause: &str, d: String, fp: u64| CaseOut {
            verdict: Verdict::Fail(Failure::new(clause, &format!("c11:{}", clause), d)),
            nontrivial: false,
            labels: vec![],
            fingerprint: fp,
            execs: 1,
        };
        match decode(bytes) {
            Case::Source(m, globals, runnable) => {
                let mut labels = vec!["source".to_string()];
                let mut execs = 1;
                let original = compile(m.clone(), None);
                let fp = match &original {
                    Ok(p) => fnv64(&p.bytecode),
                    Err(_) => fnv64(bytes),
                };
                // (a) source round trips
                let js = match serde_json::to_string(&m) {
                    Ok(s) => s,
                    Err(e) => return mk("module_serializes", format!("json: {}", e), fp),
                };
                let ys = match serde_yaml::to_string(&m) {
                    Ok(s) => s,
                    Err(e) => return mk("module_serializes", format!("yaml: {}", e), fp),
                };
                let loaded: Vec<(&str, Result<Module, String>)> =
                    vec![("json", serde_json::from_str(&js).map_err(|e| e.to_string())), ("yaml", serde_yaml::from_str(&ys).map_err(|e| e.to_string()))];
                for (fmt, mm) in loaded {
                    let mm = match mm {
                        Ok(x) => x,
                        Err(e) => {
                            // the loaders' own depth limit is outside the property's domain
                            if e.contains("recursion limit") {
                                labels.push(format!("{}_depth_limit", fmt));
                                continue;
                            }
                            return mk("module_reloads", format!("{}: {}", fmt, e), fp);
                        }
                    };
                    execs += 1;
                    match (&original, compile(mm, None)) {
                        (Ok(a), Ok(b)) => {
                            if let Some(d) = diff(&view(a), &view(&b)) {
                                return mk("source_roundtrip_same_program", format!("{}: {}", fmt, d), fp);
                            }
                        }
                        (Err(a), Err(b)) => {
                            if std::mem::discriminant(&a.payload) != std::mem::discriminant(&b.payload) {
                                return mk("source_roundtrip_same_error", format!("{}: {} vs {}", fmt, a, b), fp);
                            }
                        }
                        (a, b) => return mk("source_roundtrip_same_program", format!("{}: original ok={} reloaded ok={}", fmt, a.is_ok(), b.is_ok()), fp),
                    }
                }
                // (b) compiled program round trips
                let Ok(prog) = original else {
                    labels.push("compile_err".into());
                    return CaseOut { verdict: Verdict::Pass, nontrivial: false, labels, fingerprint: fp, execs };
                };
                let v0 = view(&prog);
                let cfg = RunCfg { max_instr: 200_000, ..RunCfg::default() };
                let obs0 = if runnable { Some(run_vm(&prog, &globals, &cfg)) } else { None };
                if runnable {
                    labels.push("executed".into());
                }
                for (fmt, enc, dec) in prog_codecs() {
                    let bytes = match enc(&prog) {
                        Ok(b) => b,
                        Err(e) => return mk("program_serializes", format!("{}: {}", fmt, e), fp),
                    };
                    let back = match dec(&bytes) {
                        Ok(p) => p,
                        Err(e) => return mk("program_deserializes", format!("{}: {}", fmt, e), fp),
                    };
                    if let Some(d) = diff(&v0, &view(&back)) {
                        return mk("program_roundtrip_equal", format!("{}: {}", fmt, d), fp);
                    }
                    let mut feats = Features::default();
                    if let Err((clause, d)) = verify(&back, &mut feats) {
                        if !(clause == "function_label_exists") {
                            return mk("program_roundtrip_wellformed", format!("{}: {}: {}", fmt, clause, d), fp);
                        }
                    }
                    if let Some(obs0) = &obs0 {
                        execs += 1;
                        let obs = run_vm(&back, &globals, &cfg);
                        if let Some(d) = obs_diff(obs0, &obs) {
                            return mk("program_roundtrip_same_run", format!("{}: {}", fmt, d), fp);
                        }
                    }
                }
                if v0.labels.len() >= 17 {
                    labels.push("labels>=17".into());
                }
                if v0.ids.len() > 16 {
                    labels.push("globals>16".into());
                }
                let nontrivial = v0.labels.len() >= 17 && !v0.ids.is_empty();
                CaseOut { verdict: Verdict::Pass, nontrivial, labels, fingerprint: fp, execs }
            }
            Case::Value(mv, share) => {
                let fp = fnv64(format!("{:?}{}", mv, share).as_bytes());
                let mut labels = vec!["value".to_string()];
                let mut vm1 = Vm::new(()).expect("vm");
                vm1.runtime_data = cao_lang::vm::runtime::RuntimeData::new(64 << 20, 256, 256).unwrap();
                let v = match materialize(&mut vm1, &mv) {
                    Ok(v) => v,
                    Err(e) => return mk("materialize", format!("{:?}", e), fp),
                };
                // the same table object reachable twice (acyclic): as a value it is a tree with two
                // equal sub-trees, and that is what has to come back
                if share > 0 {
                    if let Value::Object(top) = v {
                        let subtables: Vec<Value> = unsafe { top.as_ref() }
                            .as_table()
                            .map(|t| t.iter().map(|(_, x)| *x).filter(|x| matches!(x, Value::Object(o) if unsafe { o.as_ref() }.as_table().is_some())).collect())
                            .unwrap_or_default();
                        let key = |vm: &mut Vm<()>, s: &str| vm.init_string(s).map(|g| Value::Object(g.into_inner()));
                        if let Some(first) = subtables.first().copied() {
                            if let Ok(k) = key(&mut vm1, "alias") {
                                let mut top = top;
                                if let Some(t) = unsafe { top.as_mut() }.as_table_mut() {
                                    if t.insert(k, first).is_ok() {
                                        labels.push("shared_subtable".into());
                                    }
                                }
                            }
                            if share > 1 && subtables.len() >= 2 {
                                if let (Ok(k), Value::Object(mut host)) = (key(&mut vm1, "shared"), subtables[1]) {
                                    if let Some(t) = unsafe { host.as_mut() }.as_table_mut() {
                                        let _ = t.insert(k, first);
                                    }
                                }
                            }
                        }
                    }
                }
                // what the VM holds (duplicate / aliasing keys of the generated literal already merged)
                let expected = MV::from_value(v);
                let owned = match OwnedValue::try_from(v) {
                    Ok(o) => o,
                    Err(_) => return mk("owned_from_value", "OwnedValue::try_from failed on a string/table/number value".into(), fp),
                };
                fn big(m: &MV, depth: u32) -> bool {
                    match m {
                        MV::Table(t) => t.len() >= 9 || depth >= 2 || t.iter().any(|(k, v)| big(k, depth + 1) || big(v, depth + 1)),
                        _ => false,
                    }
                }
                let nontrivial = big(&expected, 0);
                if nontrivial {
                    labels.push("big_or_nested_table".into());
                }
                let mut execs = 0;
                for (fmt, enc, dec) in value_codecs() {
                    let bytes = match enc(&owned) {
                        Ok(b) => b,
                        Err(e) => return mk("value_serializes", format!("{}: {}", fmt, e), fp),
                    };
                    let back = match dec(&bytes) {
                        Ok(p) => p,
                        Err(e) => return mk("value_deserializes", format!("{}: {}", fmt, e), fp),
                    };
                    let mut vm2 = Vm::new(()).expect("vm");
                    vm2.runtime_data = cao_lang::vm::runtime::RuntimeData::new(64 << 20, 256, 256).unwrap();
                    let v2 = match vm2.insert_value(&back) {
                        Ok(v) => v,
                        Err(e) => return mk("value_inserts", format!("{}: {:?}", fmt, e), fp),
                    };
                    execs += 1;
                    let got = MV::from_value(v2);
                    if !got.obs_eq(&expected) {
                        return mk("value_roundtrip_equal", format!("{}: {} came back as {}", fmt, expected.to_json(), got.to_json()), fp);
                    }
                    // the receiving VM may collect while the value is being rebuilt: a collection at
                    // every allocation, and the natural trigger of a VM with a small memory limit.
                    // Swept objects are quarantined (poisoned, not freed), so a value that lost a
                    // part to a collection is recognised without reading freed memory.
                    use cao_lang::verif::{self, GcSchedule};
                    for (vm_name, limit, schedule) in [("collect_at_every_allocation", 64usize << 20, GcSchedule::Every), ("limit_256KiB", 256 << 10, GcSchedule::Natural), ("limit_32KiB", 32 << 10, GcSchedule::Natural)] {
                        let mut vm3 = Vm::new(()).expect("vm");
                        vm3.runtime_data = cao_lang::vm::runtime::RuntimeData::new(limit, 256, 256).unwrap();
                        vm3.runtime_data.verif_quarantine = true;
                        verif::alloc_hooks(&vm3.runtime_data).schedule = schedule;
                        let v3 = match vm3.insert_value(&back) {
                            Ok(v) => v,
                            // a value that does not fit a small VM is refused, which is not a round-trip failure
                            Err(_) if limit < (1 << 20) => {
                                labels.push("does_not_fit_small_vm".into());
                                continue;
                            }
                            Err(e) => return mk("value_inserts", format!("{} into a VM with {}: {:?}", fmt, vm_name, e), fp),
                        };
                        execs += 1;
                        if verif::alloc_hooks(&vm3.runtime_data).collections > 0 {
                            labels.push("collected_during_insert".into());
                        }
                        if let Some(d) = crate::props::c02::audit_roots(vec![(v3, "inserted".to_string())]) {
                            return mk("value_roundtrip_survives_collection", format!("{} into a VM with {}: {} ({})", fmt, vm_name, d, expected.to_json()), fp);
                        }
                        let got = MV::from_value(v3);
                        if !got.obs_eq(&expected) {
                            return mk("value_roundtrip_equal", format!("{} into a VM with {}: {} came back as {}", fmt, vm_name, expected.to_json(), got.to_json()), fp);
                        }
                    }
                }
                labels.sort();
                labels.dedup();
                CaseOut { verdict: Verdict::Pass, nontrivial, labels, fingerprint: fp, execs }
            }
        }
    }
    fn label_floors(&self) -> Vec<(&'static str, f64)> {
        vec![("labels>=17", 0.2), ("globals>16", 0.01), ("big_or_nested_table", 0.02)]
    }
}
