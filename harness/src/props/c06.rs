//! C06 — closures capture variables by reference with correct identity and lifetime.
//! Same differential as C01 with a closure-heavy generator configuration: closures nested up to
//! 3 deep, created in functions called with arguments (frame offset > 0), inside loop bodies,
//! in a submodule, stored / returned / passed / called from natives; every closure body logs a
//! unique tag first so "ran the wrong body" is visible.

use crate::choice::{fnv64, Choices};
use crate::engine::{CaseOut, Failure, Property, Tier, Verdict};
use crate::genprog::{gen_program, GenCfg};
use crate::ir::{program_json, Program};
use crate::observe::*;
use crate::props::c01::{compare, discard_reason, labels_of};
use crate::refsem::run_reference;
use serde_json::Value as J;

pub struct C06;

pub fn cfg() -> GenCfg {
    GenCfg {
        max_funcs: 4,
        budget: 120,
        closures: 10,
        tables: 2,
        natives: 5,
        reentry: 3,
        expr_stmt: 1,
        errors: 0,
        wide_globals: false,
        return_in_main: false,
        abort: false,
        closure_bias: true,
        submodule: true,
    }
}

pub fn decode(bytes: &[u8]) -> Program {
    let mut c = Choices::new(bytes);
    gen_program(&mut c, &cfg())
}

impl Property for C06 {
    fn id(&self) -> &'static str {
        "C06"
    }
    fn rule(&self) -> &'static str {
        "case = well-scoped program from the shared generator in closure mode (closure expressions weighted x3, nested <=3, arity 0-2, created in main / in functions called with 0-3 arguments / in Repeat and ForEach bodies / in a submodule, stored in locals, returned, passed as arguments, called directly, through DynamicCall and through the re-entering natives call0/call1; every closure body logs a unique tag first); oracle = reference interpreter with by-reference cells (fresh cell per scope entry), observation equality as C01. non-trivial = some closure call read or wrote a captured variable AND (a captured variable was read after an earlier write to it, or written) AND the closure was created in a frame with offset > 0, in a loop iteration, or in a non-root module; distinct by hash of the decoded program"
    }
    fn assumptions(&self) -> Vec<String> {
        vec!["same assumptions as C01 (reference interpreter, no collections, log results stored in a dummy global)".into()]
    }
    fn max_len(&self) -> usize {
        1600
    }
    fn quick_cases(&self) -> u64 {
        128_000
    }
    fn states_termination(&self) -> bool {
        // generated programs terminate by construction (and the VM has a budget): a case that does
        // not produce an outcome cannot equal the reference outcome
        true
    }
    fn describe(&self, bytes: &[u8]) -> J {
        program_json(&decode(bytes))
    }
    fn structured(&self, bytes: &[u8]) -> Option<J> {
        serde_json::to_value(decode(bytes)).ok()
    }
    fn run_structured(&self, case: &J, _tier: Tier) -> Option<CaseOut> {
        let prog: Program = serde_json::from_value(case.clone()).ok()?;
        Some(run_program(&prog))
    }
    fn run(&self, bytes: &[u8], _tier: Tier) -> CaseOut {
        run_program(&decode(bytes))
    }
    fn label_floors(&self) -> Vec<(&'static str, f64)> {
        vec![("captured_access", 0.10), ("closure_offset>0", 0.10), ("closure_in_loop", 0.05), ("read_after_write", 0.02), ("submodule", 0.10)]
    }
}

fn run_program(prog: &Program) -> CaseOut {
    {
        let prog = prog.clone();
        let fp = fnv64(format!("{:?}", prog).as_bytes());
        let r = run_reference(&prog, 60_000);
        let mut labels = labels_of(&r);
        let has_sub = !prog.root.submodules.is_empty();
        if has_sub {
            labels.push("submodule".into());
        }
        if let Some(w) = discard_reason(&r) {
            return CaseOut { verdict: Verdict::Discard(w), nontrivial: false, labels, fingerprint: fp, execs: 0 };
        }
        let tags: Vec<String> = r.tags.iter().cloned().collect();
        let sig_tail = if tags.is_empty() { String::new() } else { format!(":{}", tags.join("+")) };
        let compiled = match compile_program(&prog) {
            Ok(c) => c,
            Err(e) => {
                return CaseOut {
                    verdict: Verdict::Fail(Failure::new("compiles", "c06:compile_error", format!("well-scoped program rejected by the compiler: {}", e))),
                    nontrivial: false,
                    labels,
                    fingerprint: fp,
                    execs: 1,
                }
            }
        };
        let obs = run_vm(&compiled, &prog.globals, &RunCfg::default());
        let s = &r.stats;
        let nontrivial = (s.captured_reads + s.captured_writes > 0)
            && (s.capture_after_write > 0 || s.captured_writes > 0)
            && (s.closures_created_offset_gt0 > 0 || s.closures_created_in_loop > 0 || has_sub);
        if s.capture_after_write > 0 {
            labels.push("read_after_write".into());
        }
        if s.captured_writes > 0 {
            labels.push("captured_write".into());
        }
        let verdict = match compare(&obs, &r) {
            None => Verdict::Pass,
            Some((clause, detail)) => Verdict::Fail(Failure::new(&clause, &crate::props::c01::failure_sig("c06", &clause, &obs, &r), detail)),
        };
        CaseOut { verdict, nontrivial, labels, fingerprint: fp, execs: 1 }
    }
}
