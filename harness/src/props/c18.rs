//! C18 — host functions receive the right arguments and can safely re-enter scripts.
//!
//! Family A: natives of arity 0-4 with every supported parameter type in every position
//! (`typednatives.rs`), invoked through CallNative, through a native function value + dynamic
//! call and through the re-entering natives, from main, from frames above other values and
//! inside loops, with arguments of every kind (matching, coercible, or to be rejected).
//! Family B: re-entry-heavy generated programs (call0/call1/call2 with script functions,
//! closures with captured state and native values as callees, nested through several natives).
//! Oracle: the conversion model of the property inside the reference interpreter (recorded
//! parameters, returned values, TaskFailure naming the native, rejected parameter named in the
//! message) + stack/call-stack heights measured by the natives around every successful
//! run_function + observation equality with the reference interpreter.

use crate::choice::{fnv64, Choices};
use crate::engine::{CaseOut, Failure, Property, Tier, Verdict};
use crate::genprog::{gen_program, log_stmt, GenCfg};
use crate::ir::*;
use crate::observe::*;
use crate::props::c01::compare;
use crate::refsem::{run_reference, ErrKind};
use crate::typednatives::{RETURNERS, SIGNATURES};
use serde_json::Value as J;
use std::rc::Rc;

pub struct C18;

fn int(i: i64) -> Expr {
    Expr::Int(i)
}
fn var(n: &str) -> Expr {
    Expr::Var(n.into())
}

fn value_of_kind(c: &mut Choices, kind: usize) -> Expr {
    match kind {
        0 => Expr::Nil,
        1 => int(*c.pick(&[0i64, 1, -3, 7, 1 << 40])),
        2 => Expr::Real(*c.pick(&[0.0, 0.5, -2.5, 3.0, 1e18])),
        3 => Expr::Str(c.pick(&["", "a", "héllo", "42"]).to_string()),
        4 => var("tbl"),
        5 => Expr::NativeRef("id".into()),
        _ => Expr::Closure(Rc::new(ClosureDef { id: 700, params: vec![], body: vec![Stmt::Return(int(1))] })),
    }
}

/// an argument for a parameter of the given type letter: usually of a kind the conversion
/// accepts, sometimes any kind
fn arg_for(c: &mut Choices, ty: char, labels: &mut Vec<String>) -> Expr {
    if c.chance(56) {
        labels.push("arbitrary_kind_arg".into());
        let k = c.draw(7);
        return value_of_kind(c, k);
    }
    let kinds: &[usize] = match ty {
        'i' | 'f' | 'b' | 'v' => &[0, 1, 2, 3, 4],
        's' => &[3],
        't' | 'p' => &[4],
        'n' => &[0, 1, 2],
        _ => &[0, 3],
    };
    let k = *c.pick(kinds);
    value_of_kind(c, k)
}

fn native_call(c: &mut Choices, labels: &mut Vec<String>) -> Expr {
    if c.chance(30) {
        return Expr::CallNative(c.pick(&RETURNERS).to_string(), vec![]);
    }
    let name = *c.pick(&SIGNATURES);
    let sig: Vec<char> = name[2..].chars().filter(|ch| *ch != 'z').collect();
    let args: Vec<Expr> = sig.iter().map(|t| arg_for(c, *t, labels)).collect();
    labels.push(format!("arity_{}", sig.len()));
    let distinct: std::collections::BTreeSet<char> = sig.iter().copied().collect();
    if sig.len() >= 2 && distinct.len() >= 2 {
        labels.push("mixed_types".into());
    }
    match c.weighted(&[6, 3, 2]) {
        0 => Expr::CallNative(name.into(), args),
        1 => {
            labels.push("path:dynamic_call".into());
            Expr::DynCall(Box::new(Expr::NativeRef(name.into())), args)
        }
        _ => match args.len() {
            0 => {
                labels.push("path:call0".into());
                Expr::CallNative("call0".into(), vec![Expr::NativeRef(name.into())])
            }
            1 => {
                labels.push("path:call1".into());
                Expr::CallNative("call1".into(), vec![Expr::NativeRef(name.into()), args[0].clone()])
            }
            2 => {
                labels.push("path:call2".into());
                Expr::CallNative("call2".into(), vec![Expr::NativeRef(name.into()), args[0].clone(), args[1].clone()])
            }
            _ => Expr::CallNative(name.into(), args),
        },
    }
}

fn family_a(c: &mut Choices, labels: &mut Vec<String>) -> Program {
    let prelude = |tag: i64| {
        vec![
            Stmt::SetVar("tbl".into(), Expr::CreateTable),
            Stmt::SetProp(int(tag), var("tbl"), Expr::Str("a".into())),
            Stmt::SetVar("sentinel".into(), int(tag)),
        ]
    };
    let mut calls = |c: &mut Choices, labels: &mut Vec<String>| -> Vec<Stmt> {
        let n = 1 + c.draw(4);
        let mut out = vec![];
        for _ in 0..n {
            let e = native_call(c, labels);
            let s = log_stmt(e);
            out.push(if c.chance(50) {
                labels.push("in_loop".into());
                Stmt::Repeat(int(2), None, Box::new(s))
            } else {
                s
            });
        }
        out.push(log_stmt(var("sentinel")));
        out.push(log_stmt(var("tbl")));
        out
    };
    let mut main_body = prelude(11);
    let mut funcs = vec![];
    if c.bool() {
        // the calls happen in a function whose frame sits above the caller's locals and arguments
        labels.push("nested_frame".into());
        let mut body = prelude(22);
        body.extend(calls(c, labels));
        body.push(Stmt::Return(var("p1")));
        funcs.push(FuncDef { id: 1, name: "f1".into(), module: vec![], params: vec!["p0".into(), "p1".into()], body });
        main_body.push(log_stmt(Expr::Call("f1".into(), 1, vec![int(5), int(6)])));
        main_body.push(log_stmt(var("sentinel")));
    } else {
        main_body.extend(calls(c, labels));
    }
    funcs.insert(0, FuncDef { id: 0, name: "main".into(), module: vec![], params: vec![], body: main_body });
    let n = funcs.len();
    Program { funcs, root: ModuleDef { name: String::new(), functions: (0..n).collect(), submodules: vec![], imports: vec![] }, globals: vec!["sink_".into()] }
}

fn decode(bytes: &[u8]) -> (Program, Vec<String>) {
    let mut c = Choices::new(bytes);
    let mut labels = vec![];
    if c.chance(150) {
        labels.push("family_a".into());
        let p = family_a(&mut c, &mut labels);
        (p, labels)
    } else {
        labels.push("family_b".into());
        let cfg = GenCfg { reentry: 8, closures: 6, errors: 1, closure_bias: true, wide_globals: false, abort: false, ..GenCfg::default() };
        (gen_program(&mut c, &cfg), labels)
    }
}

fn registration_rules() -> Option<String> {
    let mut vm = new_vm(&RunCfg::default());
    fn nop(_vm: &mut cao_lang::prelude::Vm<Host>) -> Result<cao_lang::prelude::Value, cao_lang::prelude::ExecutionErrorPayload> {
        Ok(cao_lang::prelude::Value::Nil)
    }
    type F0 = fn(&mut cao_lang::prelude::Vm<Host>) -> Result<cao_lang::prelude::Value, cao_lang::prelude::ExecutionErrorPayload>;
    for name in ["__min", "__sort", "__x", "__"] {
        if vm.register_native_function(name, nop as F0).is_ok() {
            return Some(format!("a native called {:?} could be registered", name));
        }
    }
    None
}

impl Property for C18 {
    fn id(&self) -> &'static str {
        "C18"
    }
    fn rule(&self) -> &'static str {
        "case = family A (58%): 1-4 calls of natives drawn from 25 signatures (arity 0-4 over i64 f64 bool &str Value &Table *mut Table Nilable<i64> Nilable<&str>) and 5 value-returning natives, arguments of a fitting kind or (22%) of any kind incl. nil/int/real/string/table/native/closure, through CallNative / native value + DynamicCall / call0-call1-call2 re-entry, optionally inside repeat loops and inside a function called with two arguments above the caller's locals; family B: generated programs with re-entry weight x8 (script functions, closures with captured state, natives as callees of call0/call1, nested). Oracles: recorded parameters = documented conversions applied to the supplied values in declaration order; result of the card = returned value; rejected conversion => TaskFailure(<native>:InvalidArgument) whose message names a rejected parameter (#i); natives measure (value-stack height, call depth) before pushing arguments and after every successful run_function: must be equal; reserved names cannot be registered; everything else equals the reference interpreter (sentinel locals, table contents). non-trivial = a native with >=2 parameters of >=2 types was called, or a conversion had to be rejected, or a re-entry happened; distinct by hash of the program"
    }
    fn assumptions(&self) -> Vec<String> {
        vec![
            "when several parameters are unconvertible the message may name any of them".into(),
            "callees that need more arguments than were pushed are not generated".into(),
        ]
    }
    fn max_len(&self) -> usize {
        1400
    }
    fn quick_cases(&self) -> u64 {
        192_000
    }
    fn states_termination(&self) -> bool {
        true
    }
    fn describe(&self, bytes: &[u8]) -> J {
        program_json(&decode(bytes).0)
    }
    fn structured(&self, bytes: &[u8]) -> Option<J> {
        serde_json::to_value(decode(bytes).0).ok()
    }
    fn run_structured(&self, case: &J, _tier: Tier) -> Option<CaseOut> {
        let prog: Program = serde_json::from_value(case.clone()).ok()?;
        Some(run_program(&prog, vec![]))
    }
    fn run(&self, bytes: &[u8], _tier: Tier) -> CaseOut {
        let (p, labels) = decode(bytes);
        run_program(&p, labels)
    }
    fn fixed_cases(&self) -> Vec<Vec<u8>> {
        vec![vec![]]
    }
    fn label_floors(&self) -> Vec<(&'static str, f64)> {
        vec![("mixed_types", 0.2), ("conversion_rejected", 0.03), ("reentry", 0.2), ("nested_frame", 0.2), ("arity_4", 0.03)]
    }
}

fn run_program(prog: &Program, mut labels: Vec<String>) -> CaseOut {
    let fp = fnv64(format!("{:?}", prog).as_bytes());
    labels.sort();
    labels.dedup();
    let mk = |clause: &str, sig: &str, d: String| CaseOut {
        verdict: Verdict::Fail(Failure::new(clause, sig, d)),
        nontrivial: false,
        labels: vec![],
        fingerprint: fp,
        execs: 1,
    };
    if prog.funcs.len() == 1 && prog.funcs[0].body.is_empty() {
        // the fixed empty case carries the registration rules
        return match registration_rules() {
            Some(e) => mk("reserved_names_rejected", "c18:reserved_names_rejected", e),
            None => CaseOut::pass(fp),
        };
    }
    let r = run_reference(prog, 60_000);
    if let Err(ErrKind::Undefined(w)) = &r.outcome {
        return CaseOut { verdict: Verdict::Discard(w), nontrivial: false, labels, fingerprint: fp, execs: 0 };
    }
    let rejected: Option<String> = r.tags.iter().find(|t| t.starts_with("conv_fail:")).cloned();
    if rejected.is_some() {
        labels.push("conversion_rejected".into());
    }
    if r.stats.native_reentries > 0 {
        labels.push("reentry".into());
    }
    let compiled = match compile_program(prog) {
        Ok(c) => c,
        Err(e) => return mk("compiles", "c18:compile_error", format!("{}", e)),
    };
    let obs = run_vm(&compiled, &prog.globals, &RunCfg::default());
    if let Some(e) = obs.host_errors.first() {
        return mk("stacks_balanced_after_reentry", "c18:stacks_balanced_after_reentry", e.clone());
    }
    if let Some((clause, detail)) = compare(&obs, &r) {
        let sig = crate::props::c01::failure_sig("c18", &clause, &obs, &r);
        return mk(&clause, &sig, detail);
    }
    if let Some(tag) = rejected {
        // the message must name (one of) the rejected parameter(s)
        let wanted: Vec<&str> = tag["conv_fail:".len()..].split(',').collect();
        let msg = obs.detail.clone().unwrap_or_default();
        if !wanted.iter().any(|w| msg.contains(&format!("input {}:", w)) || msg.contains(&format!("{} ", w)) || msg.contains(&format!("{}:", w))) {
            return mk("rejected_parameter_named", "c18:rejected_parameter_named", format!("rejected parameters {:?}, message: {}", wanted, msg));
        }
    }
    let nontrivial = labels.iter().any(|l| l == "mixed_types" || l == "conversion_rejected" || l == "reentry");
    CaseOut { verdict: Verdict::Pass, nontrivial, labels, fingerprint: fp, execs: 1 }
}
