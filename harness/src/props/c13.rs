//! C13 — the handle table is a faithful map on non-zero handles.
//!
//! Histories on `HandleTable<V, A>` over handles chosen by home slot (the fibonacci multiplier is
//! odd, hence invertible mod 2^32: the generator picks the product's low bits = home slot at every
//! power-of-two capacity), any initial capacity 0..=70, every insertion path.
//! Oracle: std HashMap<u32,_> after every op; termination through the engine's isolated-process
//! watchdog (a hang in `entry`/`find_ind` is exactly the violation the property names).

use crate::choice::{fnv64, Choices};
use crate::engine::{CaseOut, Failure, Property, Tier, Verdict};
use crate::testalloc::*;
use cao_lang::collections::handle_table::{Handle, HandleTable};
use cao_lang::verif::alloc::{Allocator, SysAllocator};
use serde_json::{json, Value as J};
use std::collections::{BTreeSet, HashMap};
use std::time::Duration;

pub struct C13;

const FIB: u32 = 2654435769;

fn fib_inv() -> u32 {
    // Newton iteration for the inverse of an odd number mod 2^32
    let mut x: u32 = FIB;
    for _ in 0..6 {
        x = x.wrapping_mul(2u32.wrapping_sub(FIB.wrapping_mul(x)));
    }
    x
}

/// handle whose product `h * FIB` (mod 2^32) equals `p`
fn handle_with_product(p: u32) -> u32 {
    p.wrapping_mul(fib_inv())
}

pub fn mk_handle(raw: u32) -> Handle {
    bytemuck::cast::<u32, Handle>(raw)
}

#[derive(Debug)]
struct V {
    v: i64,
    inst: usize,
    ledger: LedgerRef,
}
impl V {
    fn new(v: i64, ledger: &LedgerRef) -> V {
        V { v, inst: ledger_new_instance(ledger), ledger: ledger.clone() }
    }
}
impl Clone for V {
    fn clone(&self) -> V {
        V::new(self.v, &self.ledger)
    }
}
impl Drop for V {
    fn drop(&mut self) {
        ledger_drop(&self.ledger, self.inst);
    }
}

#[derive(Debug, Clone)]
enum Op {
    Insert(u32, i64),
    Get(u32),
    GetMutWrite(u32, i64),
    Contains(u32),
    Remove(u32),
    Entry(u32, i64),
    Reserve(usize),
    Clear,
    Clone(bool),
    Iter,
    Index(u32),
    IndexMutWrite(u32, i64),
}

#[derive(Debug, Clone)]
struct Case {
    mode: u8,            // 0 system allocator (Index impls available), 1 counting allocator
    cap0: Option<usize>, // None = Default::default()
    ops: Vec<Op>,
}

fn gen_handle(c: &mut Choices) -> u32 {
    let raw = match c.weighted(&[30, 40, 15, 15]) {
        // small dense pool so that repeats (overwrite, remove+reinsert) are common
        0 => 1 + c.draw(10) as u32,
        // colliding homes: same low 6 bits of the product => same home at capacities 4..64;
        // slot 63/31/.. (all ones) is the last slot => wrap-around at every capacity
        1 => {
            let low = *c.pick(&[0u32, 63, 1, 31]);
            let r = c.draw(24) as u32;
            handle_with_product(low | (r << 6))
        }
        // dense run of homes
        2 => handle_with_product(c.draw(40) as u32 | 0x4000_0000),
        _ => 1 + c.draw(60000) as u32,
    };
    if raw == 0 {
        1
    } else {
        raw
    }
}

fn decode(bytes: &[u8]) -> Case {
    let mut c = Choices::new(bytes);
    let mode = c.draw(2) as u8;
    let cap0 = match c.draw(10) {
        0 => None,
        1 => Some(0),
        2 => Some(1),
        3 => Some(2),
        4 => Some(3),
        5 => Some(16),
        _ => Some(c.draw(71)),
    };
    // some histories use a single insertion path so that "however many entries are added
    // through any of the insertion paths" is exercised per path
    let path = c.draw(4); // 0 mixed, 1 insert only, 2 entry only, 3 mixed
    let n = c.draw(201);
    let mut ops = vec![];
    let mut val = 0;
    for _ in 0..n {
        if c.exhausted() {
            break;
        }
        val += 1;
        let w: [u32; 12] = match path {
            1 => [40, 6, 4, 3, 14, 0, 3, 1, 2, 3, 3, 2],
            2 => [0, 6, 4, 3, 14, 40, 3, 1, 2, 3, 3, 2],
            _ => [22, 6, 4, 3, 16, 18, 3, 1, 2, 3, 3, 2],
        };
        let op = match c.weighted(&w) {
            0 => Op::Insert(gen_handle(&mut c), val),
            1 => Op::Get(gen_handle(&mut c)),
            2 => Op::GetMutWrite(gen_handle(&mut c), 1000),
            3 => Op::Contains(gen_handle(&mut c)),
            4 => Op::Remove(gen_handle(&mut c)),
            5 => Op::Entry(gen_handle(&mut c), val),
            6 => Op::Reserve(c.draw(24)),
            7 => Op::Clear,
            8 => Op::Clone(c.bool()),
            9 => Op::Iter,
            10 => Op::Index(gen_handle(&mut c)),
            _ => Op::IndexMutWrite(gen_handle(&mut c), 7),
        };
        ops.push(op);
    }
    Case { mode, cap0, ops }
}

#[derive(Default)]
struct Obs {
    remove_in_chain: bool,
    entry_many: bool,
    odd_capacity: bool,
    index_absent: bool,
    growth_steps: u32,
    max_len: usize,
}

fn full_check<A: Allocator>(t: &HandleTable<V, A>, model: &HashMap<u32, i64>, ever: &BTreeSet<u32>, ledger: &LedgerRef) -> Result<(), (String, String)> {
    if t.len() != model.len() || t.is_empty() != model.is_empty() {
        return Err(("len".into(), format!("len {} expected {}", t.len(), model.len())));
    }
    for h in ever {
        let got = t.get(mk_handle(*h)).map(|v| v.v);
        let exp = model.get(h).copied();
        if got != exp {
            let clause = if exp.is_some() { "present_handle_found" } else { "absent_handle_not_found" };
            return Err((clause.into(), format!("get({:#x}) = {:?} expected {:?}", h, got, exp)));
        }
        if t.contains(mk_handle(*h)) != exp.is_some() {
            return Err(("contains".into(), format!("contains({:#x}) != {}", h, exp.is_some())));
        }
    }
    let mut seen = BTreeSet::new();
    let mut n = 0;
    for (k, v) in t.iter() {
        n += 1;
        if !seen.insert(k.value()) {
            return Err(("iter_each_once".into(), format!("iter yields {:#x} twice", k.value())));
        }
        if model.get(&k.value()) != Some(&v.v) {
            return Err(("iter_entries".into(), format!("iter yields ({:#x},{}) model {:?}", k.value(), v.v, model.get(&k.value()))));
        }
    }
    if n != model.len() {
        return Err(("iter_each_once".into(), format!("iter yields {} entries expected {}", n, model.len())));
    }
    if let Some(i) = ledger.borrow().double_drop {
        return Err(("drop_exactly_once".into(), format!("instance #{} dropped twice", i)));
    }
    Ok(())
}

trait MaybeIndex {
    /// Some(Ok(v)) found, Some(Err) panicked, None: Index not available for this allocator
    fn index_get(&self, h: u32) -> Option<Result<i64, ()>>;
    fn index_add(&mut self, h: u32, d: i64) -> Option<Result<i64, ()>>;
}
impl MaybeIndex for HandleTable<V, SysAllocator> {
    fn index_get(&self, h: u32) -> Option<Result<i64, ()>> {
        Some(std::panic::catch_unwind(std::panic::AssertUnwindSafe(|| self[mk_handle(h)].v)).map_err(|_| ()))
    }
    fn index_add(&mut self, h: u32, d: i64) -> Option<Result<i64, ()>> {
        Some(
            std::panic::catch_unwind(std::panic::AssertUnwindSafe(|| {
                let r = &mut self[mk_handle(h)];
                r.v += d;
                r.v
            }))
            .map_err(|_| ()),
        )
    }
}
impl MaybeIndex for HandleTable<V, TestAlloc> {
    fn index_get(&self, _h: u32) -> Option<Result<i64, ()>> {
        None
    }
    fn index_add(&mut self, _h: u32, _d: i64) -> Option<Result<i64, ()>> {
        None
    }
}

fn run_history<A: Allocator + Clone + Default>(case: &Case, alloc: A, obs: &mut Obs) -> Option<Failure>
where
    HandleTable<V, A>: MaybeIndex,
{
    let ledger: LedgerRef = Default::default();
    let mut model: HashMap<u32, i64> = HashMap::new();
    let mut ever: BTreeSet<u32> = BTreeSet::new();
    let mk = |step: i64, op: &str, clause: &str, detail: String| {
        Some(Failure::new(clause, &format!("ht:{}:{}", op, clause), format!("step {} ({}): {}", step, op, detail)))
    };
    let mut t: HandleTable<V, A> = match case.cap0 {
        None => Default::default(),
        Some(c) => match HandleTable::with_capacity(c, alloc.clone()) {
            Ok(t) => t,
            Err(e) => return mk(-1, "with_capacity", "with_capacity_ok", format!("with_capacity({}) failed: {}", c, e)),
        },
    };
    if let Some(c) = case.cap0 {
        if c == 0 || (c & (c.wrapping_sub(1))) != 0 || c < 2 {
            obs.odd_capacity = true;
        }
    }
    let mut entry_inserts = 0;
    let mut result = None;
    'ops: for (step, op) in case.ops.iter().enumerate() {
        let step = step as i64;
        let cap_before = t.capacity();
        let opname;
        match op {
            Op::Insert(h, v) => {
                opname = "insert";
                ever.insert(*h);
                match t.insert(mk_handle(*h), V::new(*v, &ledger)) {
                    Ok(r) => {
                        if r.v != *v {
                            result = mk(step, opname, "insert_returns_value", format!("insert returned ref to {} expected {}", r.v, v));
                            break 'ops;
                        }
                        model.insert(*h, *v);
                    }
                    Err(e) => {
                        result = mk(step, opname, "insert_ok", format!("insert({:#x}) failed: {}", h, e));
                        break 'ops;
                    }
                }
            }
            Op::Get(h) => {
                opname = "get";
                ever.insert(*h);
            }
            Op::GetMutWrite(h, d) => {
                opname = "get_mut";
                ever.insert(*h);
                let got = t.get_mut(mk_handle(*h)).map(|x| {
                    x.v += *d;
                    x.v
                });
                let exp = model.get_mut(h).map(|x| {
                    *x += *d;
                    *x
                });
                if got != exp {
                    result = mk(step, opname, "get_mut_result", format!("get_mut({:#x}) -> {:?} expected {:?}", h, got, exp));
                    break 'ops;
                }
            }
            Op::Contains(h) => {
                opname = "contains";
                ever.insert(*h);
            }
            Op::Remove(h) => {
                opname = "remove";
                ever.insert(*h);
                if model.contains_key(h) {
                    let cap = t.capacity();
                    if cap.is_power_of_two() {
                        let hm = h.wrapping_mul(FIB) as usize & (cap - 1);
                        if model.keys().any(|o| {
                            if o == h {
                                return false;
                            }
                            let oh = o.wrapping_mul(FIB) as usize & (cap - 1);
                            oh == hm || (oh + 1) & (cap - 1) == hm
                        }) {
                            obs.remove_in_chain = true;
                        }
                    }
                }
                let got = t.remove(mk_handle(*h)).map(|x| x.v);
                let exp = model.remove(h);
                if got != exp {
                    result = mk(step, opname, "remove_result", format!("remove({:#x}) -> {:?} expected {:?}", h, got, exp));
                    break 'ops;
                }
            }
            Op::Entry(h, v) => {
                opname = "entry";
                ever.insert(*h);
                if !model.contains_key(h) {
                    entry_inserts += 1;
                    if entry_inserts > 11 {
                        obs.entry_many = true;
                    }
                }
                let l2 = ledger.clone();
                let vv = *v;
                let got = t.entry(mk_handle(*h)).or_insert_with(move || V::new(vv, &l2)).v;
                let exp = *model.entry(*h).or_insert(*v);
                if got != exp {
                    result = mk(step, opname, "entry_result", format!("entry({:#x}).or_insert_with -> {} expected {}", h, got, exp));
                    break 'ops;
                }
            }
            Op::Reserve(n) => {
                opname = "reserve";
                if let Err(e) = t.reserve(*n) {
                    result = mk(step, opname, "reserve_ok", format!("reserve({}) failed: {}", n, e));
                    break 'ops;
                }
            }
            Op::Clear => {
                opname = "clear";
                t.clear();
                model.clear();
            }
            Op::Clone(cont) => {
                opname = "clone";
                let c = t.clone();
                if let Err((clause, d)) = full_check(&c, &model, &ever, &ledger) {
                    result = mk(step, opname, &format!("clone_{}", clause), d);
                    std::mem::forget(c);
                    break 'ops;
                }
                if *cont {
                    t = c;
                } else {
                    drop(c);
                }
            }
            Op::Iter => {
                opname = "iter";
            }
            Op::Index(h) => {
                opname = "index";
                ever.insert(*h);
                if let Some(r) = t.index_get(*h) {
                    match (r, model.get(h)) {
                        (Ok(v), Some(e)) if v == *e => {}
                        (Err(()), None) => {
                            obs.index_absent = true; // documented assert
                        }
                        (r, e) => {
                            result = mk(step, opname, "index_result", format!("index({:#x}) -> {:?} expected {:?}", h, r, e));
                            break 'ops;
                        }
                    }
                }
            }
            Op::IndexMutWrite(h, d) => {
                opname = "index_mut";
                ever.insert(*h);
                if let Some(r) = t.index_add(*h, *d) {
                    let exp = model.get_mut(h).map(|x| {
                        *x += *d;
                        *x
                    });
                    match (r, exp) {
                        (Ok(v), Some(e)) if v == e => {}
                        (Err(()), None) => {
                            obs.index_absent = true;
                        }
                        (r, e) => {
                            result = mk(step, opname, "index_result", format!("index_mut({:#x}) -> {:?} expected {:?}", h, r, e));
                            break 'ops;
                        }
                    }
                }
            }
        }
        if t.capacity() != cap_before {
            obs.growth_steps += 1;
        }
        obs.max_len = obs.max_len.max(model.len());
        if let Err((clause, d)) = full_check(&t, &model, &ever, &ledger) {
            result = mk(step, opname, &clause, format!("after {:?}: {}", op, d));
            break 'ops;
        }
    }
    if result.is_some() {
        std::mem::forget(t);
        return result;
    }
    drop(t);
    if let Some(d) = ledger_final(&ledger) {
        return mk(case.ops.len() as i64, "drop", "drop_exactly_once", d);
    }
    None
}

impl Property for C13 {
    fn id(&self) -> &'static str {
        "C13"
    }
    fn rule(&self) -> &'static str {
        "case = (allocator, initial capacity None|0..=70, insertion-path profile, history of <=200 ops over non-zero handles chosen by home slot: colliding homes valid at every power-of-two capacity up to 64, last-slot homes for wrap-around, dense runs, a small re-used pool); reference std HashMap<u32,i64> compared after EVERY op (result, len, get/contains of every handle ever used, iter each-once, drop ledger, allocator ledger); termination by isolated-process watchdog. non-trivial = a present handle with a same-home or preceding-home neighbour was removed, or >11 new handles went in through entry(), or the initial capacity was 0/1/not a power of two; distinct by hash of decoded case"
    }
    fn assumptions(&self) -> Vec<String> {
        vec![
            "Index/IndexMut on an absent handle panics (documented assert) and is the expected result of that op".into(),
            "handle 0 is excluded (the property is about non-zero handles)".into(),
        ]
    }
    fn max_len(&self) -> usize {
        1400
    }
    fn quick_cases(&self) -> u64 {
        1_440_000
    }
    fn states_termination(&self) -> bool {
        true
    }
    fn case_timeout(&self) -> Duration {
        Duration::from_secs(30)
    }
    fn describe(&self, bytes: &[u8]) -> J {
        let c = decode(bytes);
        let mode_name = ["system", "counting"][c.mode as usize];
        json!({"allocator": mode_name, "initial_capacity": c.cap0,
               "ops": c.ops.iter().map(|o| format!("{:x?}", o)).collect::<Vec<_>>()})
    }
    fn run(&self, bytes: &[u8], _tier: Tier) -> CaseOut {
        let case = decode(bytes);
        let fp = fnv64(format!("{:?}", case).as_bytes());
        let mut obs = Obs::default();
        let fail = if case.mode == 0 {
            run_history(&case, SysAllocator, &mut obs)
        } else {
            let a = TestAlloc::new(None);
            let f = run_history(&case, a.clone(), &mut obs);
            if f.is_none() {
                let st = a.st.borrow();
                if let Some(e) = st.errors.first() {
                    Some(Failure::new("allocator_protocol", "ht:drop:allocator_protocol", e.clone()))
                } else if !st.outstanding.is_empty() && case.cap0.is_some() {
                    Some(Failure::new("allocator_leak", "ht:drop:allocator_leak", format!("{} blocks still allocated after drop", st.outstanding.len())))
                } else {
                    None
                }
            } else {
                f
            }
        };
        let mut labels = vec![format!("mode{}", case.mode)];
        for (b, l) in [
            (obs.remove_in_chain, "remove_in_chain"),
            (obs.entry_many, "entry>11"),
            (obs.odd_capacity, "odd_capacity"),
            (obs.index_absent, "index_absent"),
            (obs.growth_steps >= 2, "growth>=2"),
            (obs.max_len >= 17, "len>=17"),
        ] {
            if b {
                labels.push(l.to_string());
            }
        }
        CaseOut {
            verdict: match fail {
                Some(f) => Verdict::Fail(f),
                None => Verdict::Pass,
            },
            nontrivial: obs.remove_in_chain || obs.entry_many || obs.odd_capacity,
            labels,
            fingerprint: fp,
            execs: 1,
        }
    }
    fn label_floors(&self) -> Vec<(&'static str, f64)> {
        vec![("remove_in_chain", 0.10), ("entry>11", 0.05), ("odd_capacity", 0.10)]
    }
}
