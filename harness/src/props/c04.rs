//! C04 — compiling and running are total: errors are values, never crashes or hangs.
//!
//! Four case families: (0) arbitrary card trees through the JSON and YAML loaders into the
//! compiler, (1) structured compile stress (many globals / locals / upvalues / functions, deep
//! card nesting up to the loaders' limit, submodule depth around the recursion limit, super
//! chains), (2) run-time stress templates (unbounded recursion, wide expressions, integer and
//! real boundaries, wrong operand types, cyclic tables, reserved-hash keys, tiny budgets),
//! (3) random well-scoped programs under random stack / call-stack / budget configurations.
//! Oracle: compile and run return Ok or Err — no panic, no signal, no hang (isolated workers +
//! watchdog) — plus the specific error mappings the property names where the template forces them.

use crate::choice::{fnv64, Choices};
use crate::engine::{CaseOut, Failure, Property, Tier, Verdict};
use crate::gencards::CardGen;
use crate::genprog::{gen_program, log_stmt, GenCfg};
use crate::ir::*;
use crate::observe::*;
use cao_lang::compiler::{compile, Card, CardBody, Function, Module, UnaryExpression};
use serde_json::{json, Value as J};
use std::rc::Rc;

pub struct C04;

enum Case {
    Loader(Module),
    CompileStress(String, Module),
    RunTemplate(String, Program, RunCfg, Option<&'static str>),
    RunRandom(Program, RunCfg),
}

fn card(body: CardBody) -> Card {
    Card { id: Default::default(), body }
}

fn nest_not(depth: usize) -> Card {
    let mut c = card(CardBody::ScalarInt(1));
    for _ in 0..depth {
        c = card(CardBody::Not(UnaryExpression::new(c)));
    }
    c
}

pub fn compile_stress(c: &mut Choices) -> (String, Module) {
    let mut main = Function::default();
    let mut m = Module::default();
    let kind = c.draw(11);
    let name = match kind {
        0 => {
            // many distinct globals, written and read
            let n = c.draw(81);
            for i in 0..n {
                main.cards.push(Card::set_global_var(format!("g{}", i), Card::scalar_int(i as i64)));
            }
            for i in 0..n.min(40) {
                main.cards.push(Card::set_global_var("acc", Card::read_var(format!("g{}", i))));
            }
            format!("globals{}", n)
        }
        1 => {
            // many locals in one function (limit 255)
            let n = c.draw(301);
            for i in 0..n {
                main.cards.push(Card::set_var(format!("l{}", i), Card::scalar_int(i as i64)));
            }
            format!("locals{}", n)
        }
        2 => {
            // closure nest whose innermost body names more variables than one upvalue list holds
            let (na, nb) = (c.draw(201), c.draw(201));
            let mut inner_cards = vec![];
            for i in 0..na {
                inner_cards.push(Card::set_global_var("acc", Card::read_var(format!("a{}", i))));
            }
            for i in 0..nb {
                inner_cards.push(Card::set_global_var("acc", Card::read_var(format!("b{}", i))));
            }
            let innermost = card(CardBody::Closure(Box::new(Function { arguments: vec![], cards: inner_cards })));
            let mut b_cards: Vec<Card> = (0..nb).map(|i| Card::set_var(format!("b{}", i), Card::scalar_int(i as i64))).collect();
            b_cards.push(Card::set_var("inner", innermost));
            let b = card(CardBody::Closure(Box::new(Function { arguments: vec![], cards: b_cards })));
            let mut a_cards: Vec<Card> = (0..na).map(|i| Card::set_var(format!("a{}", i), Card::scalar_int(i as i64))).collect();
            a_cards.push(Card::set_var("mid", b));
            main.cards.push(Card::set_var("outer", card(CardBody::Closure(Box::new(Function { arguments: vec![], cards: a_cards })))));
            format!("upvalues{}+{}", na, nb)
        }
        3 => {
            // card nesting depth around what the loaders accept
            let d = c.draw(64);
            main.cards.push(Card::set_global_var("deep", nest_not(d)));
            format!("nest{}", d)
        }
        4 => {
            // submodule depth around the recursion limit (64)
            let d = 55 + c.draw(20);
            let mut inner = Module::default();
            inner.functions.push(("leaf".into(), Function::default().with_card(Card::scalar_int(1))));
            for i in 0..d {
                let mut outer = Module::default();
                outer.submodules.push((format!("m{}", i), inner));
                inner = outer;
            }
            m.submodules = inner.submodules;
            format!("submodule_depth{}", d)
        }
        5 => {
            // super chains longer than the module depth, in imports and call names
            let supers = 1 + c.draw(5);
            let depth = c.draw(4);
            let import = format!("{}f", "super.".repeat(supers));
            let mut inner = Module::default();
            inner.imports.push(import.clone());
            if c.bool() {
                inner.imports.push(format!("{}m0", "super.".repeat(supers)));
            }
            inner.functions.push(("leaf".into(), Function::default().with_card(Card::call_function("f", vec![])).with_card(Card::call_function("m0.f", vec![]))));
            for i in 0..depth {
                let mut outer = Module::default();
                outer.functions.push(("f".into(), Function::default()));
                outer.submodules.push((format!("m{}", i), inner));
                inner = outer;
            }
            m.submodules.push(("top".into(), inner));
            m.functions.push(("f".into(), Function::default()));
            format!("super{}_depth{}", supers, depth)
        }
        7 | 8 => {
            // a construct that needs several hidden local slots at once (for-each 5 + its
            // variables, repeat 2 + its variable, array literal 1, a new variable 1, a closure)
            // compiled when only 0..20 of the 255 local slots are left
            let n = 236 + c.draw(22);
            for i in 0..n {
                main.cards.push(Card::set_var(format!("l{}", i), Card::scalar_int(i as i64)));
            }
            let body = || Card::set_global_var("g", Card::scalar_int(1));
            let var = |on: bool, n: &str| if on { Some(n.to_string()) } else { None };
            let which = c.draw(5);
            let (vi, vk, vv) = (c.bool(), c.bool(), c.bool());
            main.cards.push(match which {
                0 => card(CardBody::ForEach(Box::new(cao_lang::compiler::ForEach { i: var(vi, "fi"), k: var(vk, "fk"), v: var(vv, "fv"), iterable: Box::new(card(CardBody::CreateTable)), body: Box::new(body()) }))),
                1 => card(CardBody::Repeat(Box::new(cao_lang::compiler::Repeat { i: var(vi, "ri"), n: Card::scalar_int(2), body: body() }))),
                2 => Card::set_global_var("g", card(CardBody::Array(vec![Card::scalar_int(1), Card::scalar_int(2), Card::scalar_int(3)]))),
                3 => Card::set_var("one_more", Card::scalar_int(1)),
                _ => Card::set_var("clo", card(CardBody::Closure(Box::new(Function { arguments: vec!["x".into(), "y".into()], cards: vec![Card::set_var("z", Card::read_var("l0"))] })))),
            });
            format!("locals{}_then_construct{}", n, which)
        }
        9 => {
            // loops nested d deep: every level keeps its hidden locals alive
            let d = c.draw(70);
            let fe = c.bool();
            let mut inner = Card::set_global_var("g", Card::scalar_int(1));
            for level in 0..d {
                let name = format!("v{}", level);
                inner = if fe {
                    card(CardBody::ForEach(Box::new(cao_lang::compiler::ForEach { i: None, k: None, v: Some(name), iterable: Box::new(card(CardBody::CreateTable)), body: Box::new(inner) })))
                } else {
                    card(CardBody::Repeat(Box::new(cao_lang::compiler::Repeat { i: Some(name), n: Card::scalar_int(1), body: inner })))
                };
            }
            main.cards.push(inner);
            format!("nested_loops{}_{}", d, if fe { "foreach" } else { "repeat" })
        }
        _ => {
            // many functions (label table growth) calling each other
            let n = c.draw(200);
            for i in 0..n {
                let callee = if i + 1 < n { format!("fn{}", i + 1) } else { "fn0".to_string() };
                m.functions.push((format!("fn{}", i), Function::default().with_card(Card::call_function(callee, vec![]))));
            }
            format!("functions{}", n)
        }
    };
    m.functions.insert(0, ("main".into(), main));
    (name, m)
}

fn int(i: i64) -> Expr {
    Expr::Int(i)
}
fn var(n: &str) -> Expr {
    Expr::Var(n.into())
}
fn bin(op: BinOp, a: Expr, b: Expr) -> Expr {
    Expr::Bin(op, Box::new(a), Box::new(b))
}

fn single_main(body: Vec<Stmt>, extra: Vec<FuncDef>) -> Program {
    let mut funcs = vec![FuncDef { id: 0, name: "main".into(), module: vec![], params: vec![], body }];
    funcs.extend(extra);
    let n = funcs.len();
    Program { funcs, root: ModuleDef { name: String::new(), functions: (0..n).collect(), submodules: vec![], imports: vec![] }, globals: vec!["r".into(), "sink_".into()] }
}

fn run_template(c: &mut Choices) -> (String, Program, RunCfg, Option<&'static str>) {
    let mut cfg = RunCfg::default();
    cfg.max_instr = 200_000;
    let kind = c.draw(15);
    match kind {
        0 => {
            // unbounded recursion: f(n) { return f(n + 1) }
            let f = FuncDef { id: 1, name: "f".into(), module: vec![], params: vec!["n".into()], body: vec![Stmt::Return(Expr::Call("f".into(), 1, vec![bin(BinOp::Add, var("n"), int(1))]))] };
            cfg.calls = *c.pick(&[1, 2, 3, 8, 64, 256]);
            cfg.stack = *c.pick(&[4, 8, 64, 256]);
            ("unbounded_recursion".into(), single_main(vec![Stmt::SetGlobal("r".into(), Expr::Call("f".into(), 1, vec![int(0)]))], vec![f]), cfg, None)
        }
        1 => {
            // right-nested expression of depth d on a small value stack
            let d = c.draw(80);
            let mut e = int(1);
            for i in 0..d {
                e = bin(BinOp::Add, int(i as i64), e);
            }
            cfg.stack = *c.pick(&[1, 2, 3, 4, 8, 16, 64, 256]);
            // the value stack accepts capacity-1 values; the expression needs d+1 slots at its peak
            let expect = if d + 2 > cfg.stack { Some("Stackoverflow") } else { None };
            (format!("wide_expr{}_stack{}", d, cfg.stack), single_main(vec![Stmt::SetGlobal("r".into(), e)], vec![]), cfg, expect)
        }
        2 => {
            // integer / real boundary arithmetic
            let pool = [i64::MAX, i64::MIN, -1, 0, 1, 2, i64::MAX - 1, i64::MIN + 1, 1 << 62];
            let (a, b) = (*c.pick(&pool), *c.pick(&pool));
            let op = *c.pick(&[BinOp::Add, BinOp::Sub, BinOp::Mul, BinOp::Div, BinOp::Less, BinOp::LessOrEq]);
            let rhs = if c.bool() { int(b) } else { Expr::Real(*c.pick(&[f64::INFINITY, f64::NEG_INFINITY, f64::NAN, 1e300, -0.0, 9.3e18])) };
            ("int_boundary".into(), single_main(vec![Stmt::SetGlobal("r".into(), bin(op, int(a), rhs)), log_stmt(var("r"))], vec![]), cfg, None)
        }
        3 => {
            // huge repeat count with a tiny budget
            cfg.max_instr = *c.pick(&[1, 2, 3, 10, 1000]);
            let n = *c.pick(&[1_000_000_000i64, i64::MAX, 0, -5]);
            ("huge_repeat".into(), single_main(vec![Stmt::Repeat(int(n), Some("i".into()), Box::new(Stmt::SetGlobal("r".into(), var("i"))))], vec![]), cfg, None)
        }
        4 => {
            // calling a non-function
            let (f, _) = [(Expr::Nil, 0), (int(3), 0), (Expr::Str("s".into()), 0), (Expr::CreateTable, 0)][c.draw(4)].clone();
            ("call_non_function".into(), single_main(vec![Stmt::SetGlobal("r".into(), Expr::DynCall(Box::new(f), vec![]))], vec![]), cfg, Some("InvalidArgument"))
        }
        5 => {
            // Get with a negative / non-integer index, table ops on non-tables
            let idx = [int(-1), Expr::Real(0.5), Expr::Nil, Expr::Str("a".into()), int(i64::MAX)][c.draw(5)].clone();
            let t = if c.bool() { Expr::CreateTable } else { int(7) };
            ("bad_row_index".into(), single_main(vec![Stmt::SetGlobal("r".into(), Expr::Get(Box::new(t), Box::new(idx)))], vec![]), cfg, None)
        }
        6 => {
            // self-referencing table used with ==, as a key, with len / foreach / log
            let mut body = vec![Stmt::SetVar("t".into(), Expr::CreateTable), Stmt::SetProp(var("t"), var("t"), Expr::Str("self".into()))];
            body.push(match c.draw(5) {
                0 => Stmt::SetGlobal("r".into(), bin(BinOp::Equals, var("t"), var("t"))),
                1 => Stmt::SetProp(int(1), Expr::CreateTable, var("t")),
                2 => Stmt::SetGlobal("r".into(), bin(BinOp::Less, var("t"), var("t"))),
                3 => Stmt::ForEach { i: None, k: Some("k".into()), v: Some("v".into()), iterable: var("t"), body: Box::new(Stmt::SetGlobal("r".into(), Expr::Len(Box::new(var("v"))))) },
                _ => Stmt::SetGlobal("r".into(), Expr::GetProp(Box::new(var("t")), Box::new(var("t")))),
            });
            ("cyclic_table".into(), single_main(body, vec![]), cfg, None)
        }
        7 => {
            // keys whose hash is the reserved value
            let k = *c.pick(&crate::props::c07::ZERO_HASH_INTS);
            let body = vec![
                Stmt::SetVar("t".into(), Expr::CreateTable),
                Stmt::SetProp(int(5), var("t"), int(k)),
                Stmt::SetProp(int(6), var("t"), int(1)),
                Stmt::SetGlobal("r".into(), Expr::GetProp(Box::new(var("t")), Box::new(int(k)))),
                log_stmt(var("r")),
            ];
            ("zero_hash_key".into(), single_main(body, vec![]), cfg, None)
        }
        8 => {
            // budget 0 and 1
            cfg.max_instr = c.draw(3) as u64;
            ("tiny_budget".into(), single_main(vec![Stmt::SetGlobal("r".into(), int(1))], vec![]), cfg, None)
        }
        9 => {
            // stdlib over odd inputs: NaN keys, mixed kinds, non-table inputs
            let items: Vec<Expr> = (0..c.draw(6)).map(|_| [Expr::Real(f64::NAN), int(1), Expr::Str("a".into()), Expr::Nil, Expr::Real(0.5), Expr::CreateTable][c.draw(6)].clone()).collect();
            let f = *c.pick(&["std.sorted", "std.min", "std.max", "std.to_array"]);
            let arg = if c.chance(200) { var("t") } else { int(3) };
            let body = vec![Stmt::SetVar("t".into(), Expr::Array(items)), Stmt::SetGlobal("r".into(), Expr::Call(f.into(), usize::MAX, vec![arg]))];
            ("stdlib_odd_input".into(), single_main(body, vec![]), cfg, None)
        }
        10 => {
            // missing native / native returning an error / unset variable
            let e = [Expr::CallNative("nope".into(), vec![]), Expr::CallNative("fail".into(), vec![]), var("never_set")][c.draw(3)].clone();
            ("missing_things".into(), single_main(vec![Stmt::SetGlobal("r".into(), e)], vec![]), cfg, None)
        }
        12 | 13 => {
            // keys that can not be found again: NaN (never equal to itself) and a table that is
            // changed after it was used as a key (its hash changes); then every table operation
            let literal_nan = c.bool();
            let nan = || if literal_nan { Expr::Real(f64::NAN) } else { bin(BinOp::Div, Expr::Real(0.0), Expr::Real(0.0)) };
            let mut body = vec![Stmt::SetVar("t".into(), Expr::CreateTable)];
            if c.bool() {
                body.push(Stmt::SetProp(int(10), var("t"), int(1)));
            }
            let hostile = c.draw(3);
            match hostile {
                0 => body.push(Stmt::SetProp(int(1), var("t"), nan())),
                1 => {
                    body.push(Stmt::SetVar("k".into(), Expr::CreateTable));
                    body.push(Stmt::SetProp(int(1), var("t"), var("k")));
                    body.push(Stmt::SetProp(int(2), var("k"), Expr::Str("x".into())));
                }
                _ => {
                    // both at once, the table key first
                    body.push(Stmt::SetVar("k".into(), Expr::CreateTable));
                    body.push(Stmt::SetProp(int(1), var("t"), var("k")));
                    body.push(Stmt::SetProp(int(1), var("t"), nan()));
                    body.push(Stmt::Append(int(3), var("k")));
                }
            }
            let tail = c.draw(3);
            for i in 0..tail {
                body.push(Stmt::SetProp(int(20 + i as i64), var("t"), int(2 + i as i64)));
            }
            let key_again = if hostile == 0 { nan() } else { var("k") };
            let std1 = |f: &str| Stmt::SetGlobal("r".into(), Expr::Call(format!("std.{}", f), usize::MAX, vec![var("t")]));
            let cb = |params: &[&str], ret: Expr| Expr::Closure(Rc::new(ClosureDef { id: 7, params: params.iter().map(|s| s.to_string()).collect(), body: vec![Stmt::Return(ret)] }));
            let op = c.draw(18);
            body.push(match op {
                0 => Stmt::SetGlobal("r".into(), Expr::PopTable(Box::new(var("t")))),
                1 => Stmt::Repeat(int(6), None, Box::new(Stmt::SetGlobal("r".into(), Expr::PopTable(Box::new(var("t")))))),
                2 => Stmt::SetGlobal("r".into(), Expr::GetProp(Box::new(var("t")), Box::new(key_again))),
                3 => Stmt::SetProp(int(5), var("t"), key_again),
                4 => Stmt::SetGlobal("r".into(), Expr::Len(Box::new(var("t")))),
                5 => Stmt::Repeat(int(5), Some("i".into()), Box::new(Stmt::SetGlobal("r".into(), Expr::Get(Box::new(var("t")), Box::new(var("i")))))),
                6 => Stmt::ForEach { i: Some("i".into()), k: Some("kk".into()), v: Some("v".into()), iterable: var("t"), body: Box::new(Stmt::SetGlobal("r".into(), var("v"))) },
                7 => std1("min"),
                8 => std1("max"),
                9 => std1("sorted"),
                10 => std1("to_array"),
                11 => Stmt::SetGlobal("r".into(), Expr::Call("std.filter".into(), usize::MAX, vec![cb(&["k", "v", "i"], int(1)), var("t")])),
                12 => Stmt::SetGlobal("r".into(), Expr::Call("std.map".into(), usize::MAX, vec![cb(&["k", "v", "i"], var("k")), var("t")])),
                13 => Stmt::SetGlobal("r".into(), Expr::Call("std.min_by_key".into(), usize::MAX, vec![cb(&["k", "v"], var("k")), var("t")])),
                14 => Stmt::SetGlobal("r".into(), Expr::Call("std.sorted_by_key".into(), usize::MAX, vec![cb(&["k", "v"], var("k")), var("t")])),
                15 => Stmt::SetGlobal("r".into(), bin(BinOp::Equals, var("t"), var("t"))),
                16 => Stmt::SetProp(int(1), Expr::CreateTable, var("t")),
                _ => Stmt::Append(int(9), var("t")),
            });
            body.push(log_stmt(Expr::Len(Box::new(var("t")))));
            (format!("unfindable_key{}_op{}", hostile, op), single_main(body, vec![]), cfg, None)
        }
        _ => {
            // closure re-entry with a tiny call stack
            cfg.calls = 1 + c.draw(4);
            let clo = Expr::Closure(Rc::new(ClosureDef { id: 0, params: vec![], body: vec![Stmt::Return(int(1))] }));
            ("reentry_small_callstack".into(), single_main(vec![Stmt::SetGlobal("r".into(), Expr::CallNative("call0".into(), vec![clo]))], vec![]), cfg, None)
        }
    }
}

fn decode(bytes: &[u8]) -> Case {
    let mut c = Choices::new(bytes);
    match c.weighted(&[4, 2, 3, 3]) {
        0 => {
            let mut g = CardGen::new();
            g.max_depth = 4;
            Case::Loader(g.module(&mut c, 2))
        }
        1 => {
            let (n, m) = compile_stress(&mut c);
            Case::CompileStress(n, m)
        }
        2 => {
            let (n, p, cfg, e) = run_template(&mut c);
            Case::RunTemplate(n, p, cfg, e)
        }
        _ => {
            let cfg = RunCfg {
                max_instr: *c.pick(&[1u64, 2, 5, 17, 100, 1000, 100_000]),
                mem_limit: 256 << 20,
                stack: *c.pick(&[2usize, 3, 4, 6, 8, 16, 32, 256]),
                calls: *c.pick(&[1usize, 2, 3, 4, 8, 256]),
            };
            let mut gc = GenCfg::default();
            gc.errors = 3;
            Case::RunRandom(gen_program(&mut c, &gc), cfg)
        }
    }
}

const KNOWN_KINDS: [&str; 18] = [
    "CallStackOverflow", "UnexpectedEndOfInput", "ExitCode", "InvalidInstruction", "InvalidArgument", "VarNotFound", "ProcedureNotFound",
    "Unimplemented", "OutOfMemory", "MissingArgument", "Timeout", "Stackoverflow", "BadReturn", "Unhashable", "AssertionError",
    "InvalidUpvalue", "NotClosure", "TaskFailure",
];

impl Property for C04 {
    fn id(&self) -> &'static str {
        "C04"
    }
    fn rule(&self) -> &'static str {
        "case = one of: (0) arbitrary card tree (any kind in any slot, valid/invalid/dotted/reserved/non-ASCII names, malformed imports, submodules) round-tripped through serde_json and serde_yaml and compiled; (1) structured compile stress: 0-80 globals, 0-300 locals, closure nests naming up to 400 outer variables, card nesting 0-63, submodule depth 55-74 around the recursion limit, super chains longer than the module depth, 0-199 functions, 236-257 locals followed by a construct that needs several hidden local slots (for-each, repeat, array literal, one more variable, closure), loops nested 0-69 deep; (2) run templates: unbounded recursion on call stacks 1..256, right-nested expressions on value stacks 1..256, i64/f64 boundary arithmetic, huge repeat counts under budgets 1..1000, calling non-functions, bad row indices, self-referencing tables used with == < as key in foreach, reserved-hash keys, budgets 0/1/2, std functions on NaN/mixed/non-table input, missing natives, native re-entry on a tiny call stack, tables holding keys that can not be found again (NaN, a table changed after it was used as a key) under pop / get / set / len / row access / for-each / append / == / use as a key / every std function; (3) random well-scoped programs under random (budget, value stack, call stack). Each case runs in an isolated worker: no panic, no signal, no hang; where a template forces a specific error kind it is asserted. non-trivial = compile cases that pass both loaders and contain a construct outside the repo tests' shapes, run cases that end in an error kind or touch a boundary value; distinct by hash of the decoded case"
    }
    fn assumptions(&self) -> Vec<String> {
        vec![
            "memory limits are not varied here (collection-related crashes are C02/C05's subject); the limit is 256 MiB".into(),
            "which of Ok/Err compile returns is not asserted, only that it returns".into(),
        ]
    }
    fn max_len(&self) -> usize {
        1600
    }
    fn quick_cases(&self) -> u64 {
        48_000
    }
    fn states_termination(&self) -> bool {
        true
    }
    fn case_timeout(&self) -> std::time::Duration {
        std::time::Duration::from_secs(30)
    }
    fn crash_context(&self, bytes: &[u8]) -> String {
        context_of(&decode(bytes))
    }
    /// run templates and random programs are replayed from the program itself
    fn structured(&self, bytes: &[u8]) -> Option<J> {
        let cfg_json = |c: &RunCfg| json!({"max_instr": c.max_instr, "mem_limit": c.mem_limit, "stack": c.stack, "calls": c.calls});
        match decode(bytes) {
            Case::RunTemplate(n, p, cfg, e) => Some(json!({"family": "run_template", "template": n, "program": serde_json::to_value(&p).ok()?, "cfg": cfg_json(&cfg), "expect": e})),
            Case::RunRandom(p, cfg) => Some(json!({"family": "run_random", "program": serde_json::to_value(&p).ok()?, "cfg": cfg_json(&cfg)})),
            _ => None,
        }
    }
    fn run_structured(&self, j: &J, _tier: Tier) -> Option<CaseOut> {
        let p: Program = serde_json::from_value(j["program"].clone()).ok()?;
        let c = &j["cfg"];
        let cfg = RunCfg { max_instr: c["max_instr"].as_u64()?, mem_limit: c["mem_limit"].as_u64()? as usize, stack: c["stack"].as_u64()? as usize, calls: c["calls"].as_u64()? as usize };
        let case = match j["family"].as_str()? {
            "run_template" => {
                let expect = j["expect"].as_str().and_then(|e| KNOWN_KINDS.iter().find(|k| **k == e).copied());
                Case::RunTemplate(j["template"].as_str()?.to_string(), p, cfg, expect)
            }
            "run_random" => Case::RunRandom(p, cfg),
            _ => return None,
        };
        Some(self.run_case(case))
    }
    fn describe(&self, bytes: &[u8]) -> J {
        match decode(bytes) {
            Case::Loader(m) => json!({"family": "loader", "module": serde_json::to_value(&m).unwrap_or(J::Null)}),
            Case::CompileStress(n, _) => json!({"family": "compile_stress", "shape": n}),
            Case::RunTemplate(n, p, cfg, e) => json!({"family": "run_template", "template": n, "program": program_json(&p), "cfg": format!("{:?}", cfg), "expected": e}),
            Case::RunRandom(p, cfg) => json!({"family": "run_random", "program": program_json(&p), "cfg": format!("{:?}", cfg)}),
        }
    }
    fn run(&self, bytes: &[u8], _tier: Tier) -> CaseOut {
        self.run_case(decode(bytes))
    }
    fn label_floors(&self) -> Vec<(&'static str, f64)> {
        vec![("loader", 0.2), ("run_random", 0.15), ("err:Stackoverflow", 0.01), ("err:CallStackOverflow", 0.01), ("err:Timeout", 0.02)]
    }
}

fn context_of(case: &Case) -> String {
    {
        match case {
            Case::Loader(_) => ":loader".into(),
            Case::CompileStress(n, _) => format!(":stress_{}", n.trim_end_matches(|ch: char| ch.is_ascii_digit() || ch == '+' || ch == '_')),
            Case::RunTemplate(n, p, _, _) => {
                // the cyclic-table template names the operation applied to the cyclic table
                let op = p.funcs[0].body.last().map(|s| match s {
                    Stmt::SetGlobal(_, Expr::Bin(op, _, _)) => format!("{:?}", op),
                    Stmt::SetGlobal(_, Expr::GetProp(..)) => "GetProp".to_string(),
                    Stmt::SetProp(..) => "SetProp".to_string(),
                    Stmt::ForEach { .. } => "ForEach".to_string(),
                    _ => String::new(),
                });
                let base: String = n.split(|ch: char| ch.is_ascii_digit()).next().unwrap_or("").into();
                if base == "cyclic_table" {
                    format!(":cyclic_table_{}", op.unwrap_or_default())
                } else {
                    format!(":{}", base)
                }
            }
            Case::RunRandom(..) => ":run_random".into(),
        }
    }
}

impl C04 {
    fn run_case(&self, case: Case) -> CaseOut {
        let ctx = context_of(&case);
        let mut labels = vec![];
        let mut nontrivial = false;
        let mut fail = None;
        let fp;
        match case {
            Case::Loader(m) => {
                labels.push("loader".to_string());
                let js = serde_json::to_string(&m).unwrap_or_default();
                fp = fnv64(js.as_bytes());
                let via_json: Option<Module> = serde_json::from_str(&js).ok();
                let via_yaml: Option<Module> = serde_yaml::to_string(&m).ok().and_then(|y| serde_yaml::from_str(&y).ok());
                if via_json.is_none() {
                    labels.push("json_rejects".into());
                }
                if via_yaml.is_none() {
                    labels.push("yaml_rejects".into());
                }
                for (which, mm) in [("json", via_json), ("yaml", via_yaml)] {
                    if let Some(mm) = mm {
                        match compile(mm, None) {
                            Ok(_) => {
                                // arbitrary card trees are not well-scoped: the property promises a
                                // total compile for them, not a total run
                                labels.push(format!("{}_compiles", which));
                                nontrivial = true;
                            }
                            Err(e) => {
                                labels.push(format!("compile_err:{:?}", std::mem::discriminant(&e.payload)).chars().take(40).collect());
                                nontrivial = true;
                            }
                        }
                    }
                }
            }
            Case::CompileStress(name, m) => {
                labels.push(format!("stress:{}", name.trim_end_matches(|ch: char| ch.is_ascii_digit() || ch == '+' || ch == '_')));
                fp = fnv64(name.as_bytes());
                let js = serde_json::to_string(&m);
                let loaded: Option<Module> = js.ok().and_then(|j| serde_json::from_str(&j).ok());
                match loaded {
                    None => labels.push("json_rejects".into()),
                    Some(mm) => {
                        nontrivial = true;
                        match compile(mm, None) {
                            Ok(p) => {
                                labels.push("compiles".into());
                                let _ = run_vm(&p, &[], &RunCfg { max_instr: 50_000, ..RunCfg::default() });
                            }
                            Err(_) => labels.push("compile_err".into()),
                        }
                    }
                }
            }
            Case::RunTemplate(name, p, cfg, expect) => {
                labels.push(format!("tpl:{}", name.split(|ch: char| ch.is_ascii_digit()).next().unwrap_or("")));
                fp = fnv64(format!("{}{:?}{:?}", name, p, cfg).as_bytes());
                match compile_program(&p) {
                    Err(e) => fail = Some(Failure::new("template_compiles", "c04:template_compile_error", format!("{}: {}", name, e))),
                    Ok(prog) if name == "cyclic_table" => {
                        // comparing / hashing a self-referencing table can overflow the native stack
                        // (known finding): probe it in a forked child so that the worker survives
                        nontrivial = true;
                        let globals = p.globals.clone();
                        match crate::engine::fork_probe(std::time::Duration::from_secs(10), || {
                            let _ = run_vm(&prog, &globals, &cfg);
                        }) {
                            crate::engine::Probe::Returned => labels.push("cyclic_ok".into()),
                            crate::engine::Probe::Signal(s) => {
                                fail = Some(Failure::new("no_crash", &format!("crash:signal{}{}", s, ctx), format!("{}: the interpreter process died with signal {} (native stack overflow)", name, s)))
                            }
                            crate::engine::Probe::Timeout => fail = Some(Failure::new("terminates", &format!("hang{}", ctx), format!("{}: no result within 10 s", name))),
                        }
                    }
                    Ok(prog) => {
                        let obs = run_vm(&prog, &p.globals, &cfg);
                        nontrivial = true;
                        if let Err(k) = &obs.outcome {
                            let base = k.split('(').next().unwrap_or("");
                            labels.push(format!("err:{}", base));
                            if !KNOWN_KINDS.contains(&base) {
                                fail = Some(Failure::new("error_is_a_value", "c04:unknown_error_kind", k.clone()));
                            }
                        }
                        if let Some(e) = expect {
                            if obs.outcome != Err(e.to_string()) {
                                fail = Some(Failure::new("error_mapping", &format!("c04:expected_{}", e), format!("{}: expected {}, got {:?}", name, e, obs.outcome)));
                            }
                        }
                    }
                }
            }
            Case::RunRandom(p, cfg) => {
                labels.push("run_random".into());
                fp = fnv64(format!("{:?}{:?}", p, cfg).as_bytes());
                // avoid switch for the known finding "self-referencing tables overflow the native
                // stack when compared or hashed": such programs are counted, not run
                let r = crate::refsem::run_reference(&p, 60_000);
                if matches!(&r.outcome, Err(crate::refsem::ErrKind::Undefined(w)) if *w == "cyclic_table" || *w == "deep_or_cyclic_compare") {
                    labels.push("excluded:cyclic_table".into());
                    return CaseOut { verdict: Verdict::Pass, nontrivial: false, labels, fingerprint: fp, execs: 0 };
                }
                match compile_program(&p) {
                    Err(e) => fail = Some(Failure::new("compiles", "c04:well_scoped_rejected", format!("{}", e))),
                    Ok(prog) => {
                        let obs = run_vm(&prog, &p.globals, &cfg);
                        if let Err(k) = &obs.outcome {
                            labels.push(format!("err:{}", k.split('(').next().unwrap_or("")));
                            nontrivial = true;
                        }
                    }
                }
            }
        }
        CaseOut {
            verdict: match fail {
                Some(f) => Verdict::Fail(f),
                None => Verdict::Pass,
            },
            nontrivial,
            labels,
            fingerprint: fp,
            execs: 1,
        }
    }
}
