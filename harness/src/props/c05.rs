//! C05 — the memory limit is enforced and garbage is reclaimed.
//!
//! Three families: (A) generated table-heavy programs under memory limits 8 KiB .. 1 MiB with the
//! natural collection trigger, (B) loops with bounded live data and n vs. 10n iterations of pure
//! garbage, (C) host-API allocator histories (init_string / init_table / insert / guards /
//! stack push+pop / gc / clear / set_memory_limit).
//! Oracle: a shadow ledger fed by the allocator's event hook — at every event the byte counter
//! equals the sum of the outstanding charges and never exceeds the limit, a failed request
//! changes nothing; after clear the ledger is empty and the counter 0; after a collection the
//! live objects are exactly the reachable (or guarded) ones; OutOfMemory only if reachable bytes
//! + request > limit: the observation of a program does not depend on the collection schedule,
//! a refused host request stays refused after a collection, and a loop with bounded live data (a
//! retained set of any size that fits, plus O(1) per iteration) never fails, whatever n.

use crate::choice::{fnv64, Choices};
use crate::engine::{CaseOut, Failure, Property, Tier, Verdict};
use crate::genprog::{gen_program, log_stmt, GenCfg};
use crate::ir::*;
use crate::observe::*;
use cao_lang::prelude::*;
use cao_lang::verif::{self, inspect, AllocEvent, GcSchedule};
use cao_lang::vm::runtime::cao_lang_object::{CaoLangObject, GcMarker, ObjectGcGuard};
use serde_json::{json, Value as J};
use std::collections::{BTreeMap, BTreeSet};

pub struct C05;

fn int(i: i64) -> Expr {
    Expr::Int(i)
}
fn var(n: &str) -> Expr {
    Expr::Var(n.into())
}

// ---------------------------------------------------------------------------------------------
// shadow ledger
// ---------------------------------------------------------------------------------------------

#[derive(Default)]
struct Ledger {
    outstanding: BTreeMap<usize, usize>,
    sum: usize,
    fails: u64,
    peak: usize,
    /// charge of the request that is being served (a collection may run in between)
    pending: usize,
}

impl Ledger {
    /// returns the first violated clause
    fn feed(&mut self, events: &[AllocEvent], limit: usize) -> Result<(), (String, String)> {
        for (i, e) in events.iter().enumerate() {
            match *e {
                AllocEvent::Request { charged, counter } => {
                    self.pending = charged;
                    if counter != self.sum + self.pending {
                        return Err(("counter_equals_outstanding".into(), format!("event #{} (request): counter {} but outstanding charges sum to {} + the request {}", i, counter, self.sum, charged)));
                    }
                }
                AllocEvent::Alloc { ptr, size, charged, counter } => {
                    if self.outstanding.insert(ptr, charged).is_some() {
                        return Err(("ledger_consistent".into(), format!("event #{}: block {:#x} handed out twice", i, ptr)));
                    }
                    self.pending = 0;
                    self.sum += charged;
                    self.peak = self.peak.max(self.sum);
                    if counter != self.sum {
                        return Err(("counter_equals_outstanding".into(), format!("event #{} (alloc {} bytes): counter {} but outstanding charges sum to {}", i, size, counter, self.sum)));
                    }
                    if counter > limit {
                        return Err(("never_above_limit".into(), format!("event #{}: counter {} above the limit {}", i, counter, limit)));
                    }
                }
                AllocEvent::Dealloc { ptr, size, charged, counter } => {
                    match self.outstanding.remove(&ptr) {
                        Some(c) if c == charged => {}
                        other => return Err(("ledger_consistent".into(), format!("event #{}: dealloc of {:#x} ({} bytes, charge {}) but the ledger has {:?}", i, ptr, size, charged, other))),
                    }
                    self.sum -= charged;
                    if counter != self.sum + self.pending {
                        return Err(("counter_equals_outstanding".into(), format!("event #{} (dealloc): counter {} but outstanding charges sum to {} (+ {} pending)", i, counter, self.sum, self.pending)));
                    }
                }
                AllocEvent::Fail { size, charged: _, counter } => {
                    self.fails += 1;
                    self.pending = 0;
                    if counter != self.sum {
                        return Err(("failed_alloc_charges_nothing".into(), format!("event #{}: after a refused request of {} bytes the counter is {} but outstanding charges sum to {}", i, size, counter, self.sum)));
                    }
                }
            }
        }
        Ok(())
    }
}

// ---------------------------------------------------------------------------------------------
// reachability walker (independent of the collector)
// ---------------------------------------------------------------------------------------------

fn header_charge() -> usize {
    std::mem::size_of::<CaoLangObject>() + std::mem::align_of::<CaoLangObject>()
}

/// (reachable objects, bytes they are charged with)
fn reachable(vm: &Vm<Host>, extra_roots: &[Value]) -> (BTreeSet<usize>, usize) {
    let rt = &*vm.runtime_data;
    let mut work: Vec<Value> = inspect::value_stack(rt);
    work.extend(inspect::globals(rt));
    work.extend(extra_roots.iter().copied());
    // the functions executing in the (still recorded) call frames
    for o in inspect::frame_callees(rt) {
        if let Some(p) = std::ptr::NonNull::new(o) {
            work.push(Value::Object(p));
        }
    }
    // callee objects of the frames and open upvalues are roots too
    for o in inspect::open_upvalues(rt) {
        if let Some(p) = std::ptr::NonNull::new(o) {
            work.push(Value::Object(p));
        }
    }
    // guarded objects
    for o in inspect::objects(rt) {
        if matches!(unsafe { o.as_ref() }.marker, GcMarker::Protected) {
            work.push(Value::Object(o));
        }
    }
    let mut seen = BTreeSet::new();
    let mut bytes = 0usize;
    while let Some(v) = work.pop() {
        let Value::Object(o) = v else { continue };
        if !seen.insert(o.as_ptr() as usize) {
            continue;
        }
        let obj = unsafe { o.as_ref() };
        bytes += header_charge();
        if let Some(s) = obj.as_str() {
            bytes += 4 * s.len() + 4;
        } else if let Some(t) = obj.as_table() {
            bytes += 40 * t.capacity() + 8;
            for (k, val) in t.iter() {
                work.push(*k);
                work.push(*val);
            }
            // keys that can not be found again are still referenced by the ordered key list
            for k in t.keys() {
                work.push(*k);
            }
        } else if let Some(c) = obj.as_closure() {
            for u in &c.upvalues {
                work.push(Value::Object(*u));
            }
        } else if let Some(u) = obj.as_upvalue() {
            if !u.location.is_null() {
                work.push(unsafe { *u.location });
            }
        }
    }
    (seen, bytes)
}

// ---------------------------------------------------------------------------------------------
// cases
// ---------------------------------------------------------------------------------------------

enum Case {
    Program(Program, usize),
    /// `retained` strings of 200 bytes stay reachable while the loop produces garbage
    GarbageLoop { n: i64, limit: usize, shape: usize, retained: i64 },
    History(Vec<HOp>, usize),
}

#[derive(Debug, Clone)]
enum HOp {
    Str(usize, bool),  // length, keep the guard
    Table(usize, bool), // entries, keep the guard
    DropGuard(usize),
    Push(usize),
    Pop,
    Gc,
    Clear,
    SetLimit(usize),
}

fn garbage_program(n: i64, shape: usize, retained: i64) -> Program {
    // live data is O(1): every iteration replaces what the previous one built
    let body = match shape {
        0 => vec![Stmt::SetVar("t".into(), Expr::CreateTable), Stmt::SetProp(Expr::CallNative("mk_str".into(), vec![int(30)]), var("t"), int(1)), Stmt::SetGlobal("keep".into(), var("t"))],
        1 => vec![Stmt::SetGlobal("keep".into(), Expr::CallNative("mk_str".into(), vec![int(40)]))],
        2 => vec![
            Stmt::SetVar("t".into(), Expr::CreateTable),
            Stmt::Repeat(int(12), Some("j".into()), Box::new(Stmt::SetProp(var("j"), var("t"), var("j")))),
            Stmt::SetGlobal("keep".into(), Expr::Len(Box::new(var("t")))),
        ],
        _ => vec![Stmt::SetGlobal("keep".into(), Expr::DynCall(Box::new(Expr::Closure(std::rc::Rc::new(ClosureDef { id: 0, params: vec![], body: vec![Stmt::Return(Expr::Str("fresh".into()))] }))), vec![]))],
    };
    // optionally a set of strings that stays reachable through a global for the whole run
    let mut main = vec![];
    if retained > 0 {
        main.push(Stmt::SetVar("held".into(), Expr::CreateTable));
        main.push(Stmt::Repeat(int(retained), None, Box::new(Stmt::Append(Expr::CallNative("mk_str".into(), vec![int(200)]), var("held")))));
        main.push(Stmt::SetGlobal("held_g".into(), var("held")));
        main.push(log_stmt(int(-retained)));
    }
    if n > 0 {
        main.push(Stmt::Repeat(int(n), Some("i".into()), Box::new(Stmt::Composite(body))));
    }
    main.push(log_stmt(int(n)));
    Program {
        funcs: vec![FuncDef { id: 0, name: "main".into(), module: vec![], params: vec![], body: main }],
        root: ModuleDef { name: String::new(), functions: vec![0], submodules: vec![], imports: vec![] },
        globals: vec!["keep".into(), "held_g".into(), "sink_".into()],
    }
}

fn decode(bytes: &[u8]) -> Case {
    let mut c = Choices::new(bytes);
    match c.weighted(&[5, 3, 4]) {
        0 => {
            // an absolute limit, or (values below 1000) a percentage of the bytes the program has
            // allocated at its peak when nothing is ever collected
            let limit = *c.pick(&[4usize << 10, 8 << 10, 32 << 10, 128 << 10, 1 << 20, 30, 55, 80, 100, 125]);
            let cfg = GenCfg { tables: 10, closures: 4, natives: 6, reentry: 2, expr_stmt: 0, errors: 0, wide_globals: false, abort: false, return_in_main: false, ..GenCfg::default() };
            Case::Program(gen_program(&mut c, &cfg), limit)
        }
        1 => {
            let n = 20 + c.draw(300) as i64;
            let limit = *c.pick(&[16usize << 10, 64 << 10, 400 << 10]);
            let shape = c.draw(4);
            // how much of the limit stays reachable: nothing, or up to about the whole limit
            // (a 200-byte string in a table costs about 330 bytes)
            let retained = if c.chance(150) { (c.draw(105) * (limit / 330) / 100) as i64 } else { 0 };
            Case::GarbageLoop { n, limit, shape, retained }
        }
        _ => {
            let limit = *c.pick(&[1usize << 10, 4 << 10, 64 << 10, 1 << 20]);
            let n = c.draw(61);
            let mut ops = vec![];
            for _ in 0..n {
                if c.exhausted() {
                    break;
                }
                ops.push(match c.weighted(&[8, 6, 4, 4, 3, 3, 1, 1]) {
                    0 => HOp::Str(*c.pick(&[0usize, 1, 10, 100, 1000, 5000]), c.bool()),
                    1 => HOp::Table(c.draw(30), c.bool()),
                    2 => HOp::DropGuard(c.draw(8)),
                    3 => HOp::Push(c.draw(8)),
                    4 => HOp::Pop,
                    5 => HOp::Gc,
                    6 => HOp::Clear,
                    _ => HOp::SetLimit(*c.pick(&[512usize, 2 << 10, 16 << 10, 256 << 10])),
                });
            }
            Case::History(ops, limit)
        }
    }
}

struct Ctx {
    labels: Vec<String>,
    execs: u64,
}

fn fail(clause: &str, d: String) -> Failure {
    Failure::new(clause, &format!("c05:{}", clause), d)
}

fn start_vm(limit: usize) -> Vm<'static, Host> {
    start_vm_with(limit, GcSchedule::Natural)
}

fn start_vm_with(limit: usize, schedule: GcSchedule) -> Vm<'static, Host> {
    let cfg = RunCfg { max_instr: 3_000_000, mem_limit: limit, ..RunCfg::default() };
    let vm = new_vm(&cfg);
    {
        let h = verif::alloc_hooks(&vm.runtime_data);
        h.schedule = schedule;
        h.record_events = true;
        h.events.clear();
        h.alloc_index = 0;
        h.collections = 0;
    }
    vm
}

/// checks that hold after a run / at the end of a history: ledger, collection exactness, clear
fn end_checks(vm: &mut Vm<Host>, ledger: &mut Ledger, limit: usize, cx: &mut Ctx) -> Result<usize, Failure> {
    let drain = |vm: &Vm<Host>| -> Vec<AllocEvent> { std::mem::take(&mut verif::alloc_hooks(&vm.runtime_data).events) };
    let ev = drain(vm);
    ledger.feed(&ev, limit).map_err(|(c, d)| fail(&c, d))?;
    let (allocated, _, _) = inspect::allocator_counters(&vm.runtime_data);
    if allocated != ledger.sum {
        return Err(fail("counter_equals_outstanding", format!("after the run: counter {} but outstanding charges sum to {}", allocated, ledger.sum)));
    }
    // a collection keeps exactly what is reachable (or guarded)
    vm.runtime_data.gc();
    let ev = drain(vm);
    ledger.feed(&ev, limit).map_err(|(c, d)| fail(&c, d))?;
    let (reach, _) = reachable(vm, &[]);
    let live: BTreeSet<usize> = inspect::objects(&vm.runtime_data).iter().map(|o| o.as_ptr() as usize).collect();
    if let Some(missing) = reach.iter().find(|p| !live.contains(p)) {
        return Err(fail("reachable_objects_survive", format!("object {:#x} is reachable but not in the live list after a collection", missing)));
    }
    if let Some(extra) = live.iter().find(|p| !reach.contains(p)) {
        let name = unsafe { (*(*extra as *const CaoLangObject)).type_name() };
        return Err(fail("unreachable_objects_reclaimed", format!("a {} object is unreachable but still alive after a collection ({} live, {} reachable)", name, live.len(), reach.len())));
    }
    let live_bytes = ledger.sum;
    // clear releases everything
    vm.clear();
    let ev = drain(vm);
    ledger.feed(&ev, limit).map_err(|(c, d)| fail(&c, d))?;
    let (allocated, _, _) = inspect::allocator_counters(&vm.runtime_data);
    if allocated != 0 || !ledger.outstanding.is_empty() || !inspect::objects(&vm.runtime_data).is_empty() {
        return Err(fail(
            "clear_releases_everything",
            format!("after clear: counter {}, {} blocks outstanding, {} objects", allocated, ledger.outstanding.len(), inspect::objects(&vm.runtime_data).len()),
        ));
    }
    cx.execs += 1;
    Ok(live_bytes)
}

fn run_program_case(prog: &Program, limit: usize, cx: &mut Ctx) -> Result<(bool, Obs), Failure> {
    run_program_sched(prog, limit, GcSchedule::Natural, cx).map(|(nt, o, _)| (nt, o))
}

/// (non-trivial, observation, bytes alive after the final collection)
fn run_program_sched(prog: &Program, limit: usize, schedule: GcSchedule, cx: &mut Ctx) -> Result<(bool, Obs, usize), Failure> {
    let compiled = compile_program(prog).map_err(|e| fail("compiles", format!("{}", e)))?;
    let mut vm = start_vm_with(limit, schedule);
    let obs = run_on(&mut vm, &compiled, &prog.globals);
    let collections = verif::alloc_hooks(&vm.runtime_data).collections;
    let mut ledger = Ledger::default();
    // feed what happened during the run first, so the OOM rule sees the state at the failure
    let ev: Vec<AllocEvent> = std::mem::take(&mut verif::alloc_hooks(&vm.runtime_data).events);
    ledger.feed(&ev, limit).map_err(|(c, d)| fail(&c, d))?;
    let oom = matches!(&obs.outcome, Err(k) if k.trim_end_matches(')').ends_with("OutOfMemory"));
    if collections >= 2 {
        cx.labels.push("gc_count>=2".into());
    }
    if oom {
        cx.labels.push("oom".into());
        // "OutOfMemory only if what is reachable plus the refused request does not fit" is decided
        // by the callers: the same program under "collect at every allocation" has nothing but
        // reachable data charged at every request, and must be refused at the same point (what
        // is reachable *after* the failing instruction unwound says nothing about that moment)
        let _ = collections;
    }
    let live = end_checks(&mut vm, &mut ledger, limit, cx)?;
    Ok((collections >= 2 || oom || ledger.fails > 0, obs, live))
}

/// bytes outstanding at the peak of a run under a huge limit during which nothing is collected
fn peak_without_collections(prog: &Program) -> Result<usize, Failure> {
    let compiled = compile_program(prog).map_err(|e| fail("compiles", format!("{}", e)))?;
    let mut vm = start_vm_with(256 << 20, GcSchedule::Never);
    let _ = run_on(&mut vm, &compiled, &prog.globals);
    let ev: Vec<AllocEvent> = std::mem::take(&mut verif::alloc_hooks(&vm.runtime_data).events);
    let mut ledger = Ledger::default();
    ledger.feed(&ev, usize::MAX).map_err(|(c, d)| fail(&c, d))?;
    Ok(ledger.peak)
}

fn same_obs(a: &Obs, b: &Obs) -> Option<String> {
    if a.outcome != b.outcome {
        return Some(format!("outcome {:?} vs {:?}", a.outcome, b.outcome));
    }
    if let Some(d) = log_eq(&a.log, &b.log) {
        return Some(format!("host log differs: {}", d));
    }
    for (n, v) in a.globals.iter() {
        if !b.globals.get(n).map(|w| w.obs_eq(v)).unwrap_or(false) {
            return Some(format!("global {} differs: {:?} vs {:?}", n, v, b.globals.get(n)));
        }
    }
    None
}

fn run_history(ops: &[HOp], limit: usize, cx: &mut Ctx) -> Result<bool, Failure> {
    let mut vm = start_vm(limit);
    let mut limit = limit;
    let mut ledger = Ledger::default();
    let mut guards: Vec<ObjectGcGuard> = vec![];
    let mut unguarded: Vec<Value> = vec![];
    let mut interesting = false;
    for (step, op) in ops.iter().enumerate() {
        match op {
            HOp::Str(len, keep) => match vm.init_string(&"s".repeat(*len)) {
                Ok(g) => {
                    if *keep {
                        guards.push(g);
                    } else {
                        unguarded.push(Value::Object(g.into_inner()));
                    }
                }
                Err(_) => {
                    interesting = true;
                    cx.labels.push("alloc_failed".into());
                    // a refused request stays refused after a collection: the allocator itself
                    // reclaims the garbage before it refuses
                    unguarded.clear();
                    vm.runtime_data.gc();
                    if vm.init_string(&"s".repeat(*len)).is_ok() {
                        return Err(fail("refused_only_when_live_data_does_not_fit", format!("step {} {:?}: refused, but the same request is granted right after a collection (limit {})", step, op, limit)));
                    }
                }
            },
            HOp::Table(n, keep) => match vm.init_table() {
                Ok(mut g) => {
                    for i in 0..*n {
                        if g.as_table_mut().unwrap().insert(Value::Integer(i as i64), Value::Integer(1)).is_err() {
                            interesting = true;
                            cx.labels.push("alloc_failed".into());
                            unguarded.clear();
                            vm.runtime_data.gc();
                            if g.as_table_mut().unwrap().insert(Value::Integer(i as i64), Value::Integer(1)).is_ok() {
                                return Err(fail("refused_only_when_live_data_does_not_fit", format!("step {} {:?}: insert #{} refused, but the same insert is granted right after a collection (limit {})", step, op, i, limit)));
                            }
                            break;
                        }
                    }
                    if *keep {
                        guards.push(g);
                    } else {
                        unguarded.push(Value::Object(g.into_inner()));
                    }
                }
                Err(_) => {
                    interesting = true;
                    cx.labels.push("alloc_failed".into());
                    unguarded.clear();
                    vm.runtime_data.gc();
                    if vm.init_table().is_ok() {
                        return Err(fail("refused_only_when_live_data_does_not_fit", format!("step {} {:?}: refused, but the same request is granted right after a collection (limit {})", step, op, limit)));
                    }
                }
            },
            HOp::DropGuard(i) => {
                if !guards.is_empty() {
                    let g = guards.remove(i % guards.len());
                    drop(g);
                }
            }
            HOp::Push(i) => {
                // push a guarded object (stays alive through the stack after its guard goes)
                if !guards.is_empty() {
                    let obj: &CaoLangObject = &guards[i % guards.len()];
                    let v = Value::Object(std::ptr::NonNull::from(obj));
                    let _ = vm.stack_push(v);
                }
            }
            HOp::Pop => {
                vm.stack_pop();
            }
            HOp::Gc => {
                // unguarded, unrooted objects may be swept now: forget them
                unguarded.clear();
                vm.runtime_data.gc();
                cx.labels.push("explicit_gc".into());
            }
            HOp::Clear | HOp::SetLimit(_) => {
                // guards must not outlive the objects
                guards.clear();
                unguarded.clear();
                if let HOp::SetLimit(l) = op {
                    vm.runtime_data.set_memory_limit(*l);
                    limit = *l;
                } else {
                    vm.clear();
                }
                interesting = true;
                cx.labels.push("clear_then_continue".into());
                let ev: Vec<AllocEvent> = std::mem::take(&mut verif::alloc_hooks(&vm.runtime_data).events);
                ledger.feed(&ev, usize::MAX).map_err(|(c, d)| fail(&c, format!("step {} {:?}: {}", step, op, d)))?;
                let (allocated, _, _) = inspect::allocator_counters(&vm.runtime_data);
                if allocated != 0 || !ledger.outstanding.is_empty() {
                    return Err(fail("clear_releases_everything", format!("step {} {:?}: counter {}, {} blocks outstanding", step, op, allocated, ledger.outstanding.len())));
                }
            }
        }
        let ev: Vec<AllocEvent> = std::mem::take(&mut verif::alloc_hooks(&vm.runtime_data).events);
        ledger.feed(&ev, limit).map_err(|(c, d)| fail(&c, format!("step {} {:?}: {}", step, op, d)))?;
        let (allocated, _, _) = inspect::allocator_counters(&vm.runtime_data);
        if allocated != ledger.sum {
            return Err(fail("counter_equals_outstanding", format!("step {} {:?}: counter {} but outstanding charges sum to {}", step, op, allocated, ledger.sum)));
        }
        // the natural trigger may have collected during this op: unguarded objects may be gone
        if verif::alloc_hooks(&vm.runtime_data).collections > 0 {
            unguarded.clear();
            verif::alloc_hooks(&vm.runtime_data).collections = 0;
            interesting = true;
        }
    }
    // the guards are dropped before the final clear
    drop(guards);
    end_checks(&mut vm, &mut ledger, limit, cx)?;
    Ok(interesting || ledger.fails > 0)
}

impl Property for C05 {
    fn id(&self) -> &'static str {
        "C05"
    }
    fn rule(&self) -> &'static str {
        "case = (A) generated table-heavy program under a limit from {4K,8K,32K,128K,1M}; (B) a loop of n in 20..320 iterations of pure garbage (4 shapes: table+string, string, 12-entry table, closure+string) after a retaining prefix, under limits {16K,64K,400K}; (C) a host-API history of <=60 ops (init_string of 0..5000 bytes, init_table with 0..29 entries, keep or drop the guard, push a guarded object, pop, gc, clear, set_memory_limit) under limits {1K,4K,64K,1M}. Oracle: shadow ledger over the allocator's event hook after every run/op (counter == sum of outstanding charges, <= limit, a refused request changes nothing), after a final collection live objects == objects reachable from stack/globals/open upvalues/guards (computed by an independent walker), after clear counter == 0 and nothing outstanding, family A (limit absolute, or 30/55/80/100/125% of the bytes allocated at the peak of a collection-free run): the observation (outcome incl. OutOfMemory, host log, globals) is identical under the natural trigger, collection at every allocation, and no collection other than the one before refusing; family B: with r retained 200-byte strings (0..105% of the limit; measured by running the retaining prefix alone) neither n nor 10n iterations (natural trigger) nor 3n iterations (no collection until the limit) may fail whenever retained bytes + 6 KiB <= limit; family C: a refused init_string / init_table / insert is still refused when retried right after an explicit collection. non-trivial = >=2 collections, or a refused allocation, or a clear followed by more work; distinct by hash of the decoded case"
    }
    fn assumptions(&self) -> Vec<String> {
        vec![
            "the ordered key list of a table and the upvalue list of a closure are ordinary Rust Vecs that the allocator never sees; they are not part of the ledger (recorded as an observation, not asserted)".into(),
            "'refused only if reachable data + request do not fit' is asserted in its exact differential forms (same observation under every collection schedule at the same limit; a refused host request is refused again after an explicit collection; bounded-live-data loops never fail), not by estimating reachable bytes after the failing instruction unwound".into(),
            "guards are dropped before clear / set_memory_limit (a guard must not outlive its object)".into(),
        ]
    }
    fn max_len(&self) -> usize {
        1600
    }
    fn quick_cases(&self) -> u64 {
        120_000
    }
    fn states_termination(&self) -> bool {
        true
    }
    fn case_timeout(&self) -> std::time::Duration {
        std::time::Duration::from_secs(30)
    }
    fn describe(&self, bytes: &[u8]) -> J {
        match decode(bytes) {
            Case::Program(p, l) => json!({"family": "program", "limit": l, "program": program_json(&p)}),
            Case::GarbageLoop { n, limit, shape, retained } => json!({"family": "garbage_loop", "n": n, "limit": limit, "shape": shape, "retained_strings": retained, "program": program_json(&garbage_program(n, shape, retained))}),
            Case::History(ops, l) => json!({"family": "history", "limit": l, "ops": ops.iter().map(|o| format!("{:?}", o)).collect::<Vec<_>>()}),
        }
    }
    fn run(&self, bytes: &[u8], _tier: Tier) -> CaseOut {
        let case = decode(bytes);
        let mut cx = Ctx { labels: vec![], execs: 0 };
        let fp;
        let res: Result<bool, Failure> = match &case {
            Case::Program(p, limit) => {
                fp = fnv64(format!("{:?}{}", p, limit).as_bytes());
                cx.labels.push("program".into());
                if *limit < (8 << 10) {
                    cx.labels.push("limit<8KiB".into());
                }
                // skip programs that do not finish in the reference interpreter with a small fuel
                let r = crate::refsem::run_reference(p, 30_000);
                if let Err(crate::refsem::ErrKind::Undefined(w)) = &r.outcome {
                    return CaseOut { verdict: Verdict::Discard(w), nontrivial: false, labels: cx.labels, fingerprint: fp, execs: 0 };
                }
                // the collector is transparent: when collections happen cannot change what the
                // program does, and in particular not whether a request is refused (a request is
                // refused only if what is reachable plus the request does not fit)
                (|| {
                    let limit = &if *limit < 1000 {
                        cx.labels.push(format!("limit_{}%_of_peak", limit));
                        let peak = peak_without_collections(p)?;
                        cx.labels.push(format!("peak_2^{}", usize::BITS - peak.leading_zeros()));
                        (peak * *limit / 100).max(256)
                    } else {
                        *limit
                    };
                    let (nt, natural, _) = run_program_sched(p, *limit, GcSchedule::Natural, &mut cx)?;
                    for (name, sched) in [("never", GcSchedule::Never), ("every", GcSchedule::Every)] {
                        let (_, other, _) = run_program_sched(p, *limit, sched, &mut cx)?;
                        if let Some(d) = same_obs(&natural, &other) {
                            return Err(fail(
                                "outcome_independent_of_collection_schedule",
                                format!("limit {}: the run with the natural trigger and the run with schedule '{}' differ: {}", limit, name, d),
                            ));
                        }
                    }
                    if matches!(&natural.outcome, Err(k) if k.trim_end_matches(')').ends_with("OutOfMemory")) {
                        cx.labels.push("oom_under_all_schedules".into());
                    }
                    Ok(nt)
                })()
            }
            Case::GarbageLoop { n, limit, shape, retained } => {
                fp = fnv64(format!("{} {} {} {}", n, limit, shape, retained).as_bytes());
                cx.labels.push(format!("garbage_loop_shape{}", shape));
                (|| {
                    // what stays reachable: measured by running the retaining prefix alone
                    let mut must_fit = true;
                    if *retained > 0 {
                        let (_, o, live) = run_program_sched(&garbage_program(0, *shape, *retained), *limit, GcSchedule::Natural, &mut cx)?;
                        // one iteration's own data and a table growing by doubling need some room
                        must_fit = o.outcome == Ok(()) && live + 6 * 1024 <= *limit;
                        let pct = live * 100 / *limit;
                        cx.labels.push(format!("retained_decile_{}", pct / 10));
                        cx.labels.push(if !must_fit { "retained_does_not_fit".to_string() } else if pct > 50 { "retained>50%".to_string() } else { "retained<=50%".to_string() });
                    }
                    let mut nt = false;
                    for (iters, sched) in [(*n, GcSchedule::Natural), (*n * 10, GcSchedule::Natural), (*n * 3, GcSchedule::Never)] {
                        let sname = format!("{:?}", sched);
                        let (x, o, _) = run_program_sched(&garbage_program(iters, *shape, *retained), *limit, sched, &mut cx)?;
                        nt |= x;
                        if must_fit && o.outcome != Ok(()) {
                            return Err(fail(
                                "bounded_live_data_runs_indefinitely",
                                format!("shape {} under limit {} with {} retained strings, {} iterations, schedule {}: {:?}", shape, limit, retained, iters, sname, o.outcome),
                            ));
                        }
                    }
                    Ok(nt)
                })()
            }
            Case::History(ops, limit) => {
                fp = fnv64(format!("{:?}{}", ops, limit).as_bytes());
                cx.labels.push("history".into());
                run_history(ops, *limit, &mut cx)
            }
        };
        cx.labels.sort();
        cx.labels.dedup();
        match res {
            Ok(nt) => CaseOut { verdict: Verdict::Pass, nontrivial: nt, labels: cx.labels, fingerprint: fp, execs: cx.execs.max(1) },
            Err(f) => CaseOut { verdict: Verdict::Fail(f), nontrivial: false, labels: cx.labels, fingerprint: fp, execs: cx.execs.max(1) },
        }
    }
    fn label_floors(&self) -> Vec<(&'static str, f64)> {
        vec![("gc_count>=2", 0.05), ("alloc_failed", 0.02), ("clear_then_continue", 0.05)]
    }
}
