//! C17 — a cleared VM behaves like a fresh one; runs are deterministic and do not leak.
//!
//! Histories of 2..40 steps over ONE VM: run(program, budget), clear, set_memory_limit, with
//! programs that end in every way (Ok, Timeout, OutOfMemory, Stackoverflow, CallStackOverflow,
//! native error, error inside a native->script callback, open upvalues, garbage beyond the
//! collection threshold), plus the repetition classes (run; clear) x n and run x n (n up to 300).
//! Oracles: every run that follows a clear / set_memory_limit is replayed on a newly built VM with
//! the same natives and limits — observation, instruction count, allocator counters (allocated,
//! next threshold, number of collections) and stack heights after the run must be equal; the
//! whole history replayed twice gives identical observations; in the repetition classes run k
//! equals run 1.

use crate::choice::{fnv64, Choices};
use crate::engine::{CaseOut, Failure, Property, Tier, Verdict};
use crate::genprog::{gen_program, log_stmt, GenCfg};
use crate::ir::*;
use crate::observe::*;
use cao_lang::prelude::*;
use cao_lang::verif::{self, inspect};
use serde_json::{json, Value as J};
use std::rc::Rc;

pub struct C17;

fn int(i: i64) -> Expr {
    Expr::Int(i)
}
fn var(n: &str) -> Expr {
    Expr::Var(n.into())
}
fn bin(op: BinOp, a: Expr, b: Expr) -> Expr {
    Expr::Bin(op, Box::new(a), Box::new(b))
}

fn single(body: Vec<Stmt>, extra: Vec<FuncDef>) -> Program {
    let mut funcs = vec![FuncDef { id: 0, name: "main".into(), module: vec![], params: vec![], body }];
    funcs.extend(extra);
    let n = funcs.len();
    Program { funcs, root: ModuleDef { name: String::new(), functions: (0..n).collect(), submodules: vec![], imports: vec![] }, globals: vec!["r".into(), "sink_".into()] }
}

/// programs that end in a specific way
fn template(c: &mut Choices) -> (String, Program) {
    match c.draw(13) {
        0 => {
            // no arguments and no locals: the call stack fills up before the value stack
            let f = FuncDef { id: 1, name: "f".into(), module: vec![], params: vec![], body: vec![Stmt::Return(Expr::Call("f".into(), 1, vec![]))] };
            ("call_stack_overflow".into(), single(vec![log_stmt(int(1)), Stmt::SetGlobal("r".into(), Expr::Call("f".into(), 1, vec![]))], vec![f]))
        }
        1 => {
            let mut e = int(1);
            for i in 0..300 {
                e = bin(BinOp::Add, int(i), e);
            }
            ("value_stack_overflow".into(), single(vec![log_stmt(int(2)), Stmt::SetGlobal("r".into(), e)], vec![]))
        }
        2 => ("timeout".into(), single(vec![log_stmt(int(3)), Stmt::While(int(1), Box::new(Stmt::SetGlobal("r".into(), int(1))))], vec![])),
        3 => {
            // keeps everything reachable: runs into the memory limit
            let body = vec![
                Stmt::SetVar("t".into(), Expr::CreateTable),
                Stmt::SetGlobal("r".into(), var("t")),
                Stmt::Repeat(int(100_000), Some("i".into()), Box::new(Stmt::Append(Expr::CallNative("mk_str".into(), vec![int(40)]), var("t")))),
            ];
            ("out_of_memory".into(), single(body, vec![]))
        }
        4 => ("native_error".into(), single(vec![log_stmt(int(5)), Stmt::SetGlobal("r".into(), Expr::CallNative("fail".into(), vec![]))], vec![])),
        5 => {
            // error inside a native -> script callback, with a captured (open) variable
            let clo = Expr::Closure(Rc::new(ClosureDef { id: 0, params: vec![], body: vec![log_stmt(var("cap")), Stmt::Return(Expr::GetProp(Box::new(int(1)), Box::new(int(2))))] }));
            ("error_in_callback".into(), single(vec![Stmt::SetVar("cap".into(), Expr::Str("open".into())), Stmt::SetGlobal("r".into(), Expr::CallNative("call0".into(), vec![clo]))], vec![]))
        }
        6 => {
            // garbage beyond the first collection threshold, then success
            let body = vec![
                Stmt::Repeat(int(400), Some("i".into()), Box::new(Stmt::Composite(vec![Stmt::SetVar("t".into(), Expr::CreateTable), Stmt::SetProp(Expr::CallNative("mk_str".into(), vec![int(30)]), var("t"), int(1)), Stmt::SetGlobal("r".into(), var("t"))]))),
                log_stmt(Expr::Len(Box::new(var("r")))),
            ];
            ("garbage_then_ok".into(), single(body, vec![]))
        }
        8 | 9 => {
            // reads a global that this run never assigns (its only assignment is in a branch not
            // taken); 0..5 other globals are declared before it, 0..2 of them assigned. What the read
            // gives depends on nothing but this run, so a cleared VM must agree with a new one.
            let before = c.draw(6);
            let assigned = c.draw(3).min(before);
            let mut dead = vec![];
            let mut body = vec![log_stmt(int(8))];
            for i in 0..before {
                if i < assigned {
                    body.push(Stmt::SetGlobal(format!("u{}", i), int(i as i64)));
                } else {
                    dead.push(Stmt::SetGlobal(format!("u{}", i), int(i as i64)));
                }
            }
            dead.push(Stmt::SetGlobal("maybe".into(), int(1)));
            body.push(Stmt::IfTrue(int(0), Box::new(Stmt::Composite(dead))));
            body.push(Stmt::SetGlobal("r".into(), var("maybe")));
            let mut p = single(body, vec![]);
            p.globals.push("maybe".into());
            for i in 0..before {
                p.globals.push(format!("u{}", i));
            }
            ("reads_unassigned_global".into(), p)
        }
        10 | 11 => {
            // reads a LOCAL that this run never assigns (its only assignment is in a branch not
            // taken) after a call with 1-4 arguments has used and released the slots above the
            // locals: what the read gives must not depend on what an earlier run left there
            let nargs = 1 + c.draw(4);
            let params: Vec<String> = (0..nargs).map(|i| format!("p{}", i)).collect();
            let f = FuncDef { id: 1, name: "f".into(), module: vec![], params: params.clone(), body: vec![Stmt::SetVar("tmp".into(), int(77)), Stmt::Return(var(&params[0]))] };
            let mut body = vec![log_stmt(int(10))];
            let locals = c.draw(3);
            for i in 0..locals {
                body.push(Stmt::SetVar(format!("l{}", i), int(i as i64)));
            }
            let call = Stmt::SetGlobal("r".into(), Expr::Call("f".into(), 1, (0..nargs).map(|i| int(40 + i as i64)).collect()));
            // the reads come before or after the call: before it, only an EARLIER run can have
            // left something in those slots
            let call_first = c.bool();
            if call_first {
                body.push(call.clone());
            }
            let dead: Vec<Stmt> = (0..3).map(|i| Stmt::SetVar(format!("maybe_l{}", i), int(7))).collect();
            body.push(Stmt::IfTrue(int(0), Box::new(Stmt::Composite(dead))));
            for i in 0..3 {
                body.push(Stmt::SetGlobal("r".into(), var(&format!("maybe_l{}", i))));
                body.push(log_stmt(var("r")));
            }
            if !call_first {
                body.push(call);
            }
            ("reads_unassigned_local".into(), single(body, vec![f]))
        }
        _ => {
            // leaves an open upvalue and a closure in a global
            let clo = Expr::Closure(Rc::new(ClosureDef { id: 0, params: vec![], body: vec![Stmt::Return(var("cap"))] }));
            ("open_upvalue_in_global".into(), single(vec![Stmt::SetVar("cap".into(), int(7)), Stmt::SetGlobal("r".into(), clo), log_stmt(Expr::DynCall(Box::new(var("r")), vec![]))], vec![]))
        }
    }
}

#[derive(Debug, Clone)]
enum Step {
    Run(usize, u64),
    Clear,
    SetLimit(usize),
}

struct Case {
    programs: Vec<(String, Program)>,
    steps: Vec<Step>,
    limit0: usize,
    /// repetition class: Some((program index, n, with clear in between))
    repetition: Option<(usize, usize, bool)>,
}

const LIMITS: [usize; 4] = [24 << 10, 64 << 10, 400 << 10, 4 << 20];

fn decode(bytes: &[u8]) -> Case {
    let mut c = Choices::new(bytes);
    let mut programs = vec![];
    let np = 1 + c.draw(3);
    for _ in 0..np {
        if c.chance(110) {
            programs.push(template(&mut c));
        } else {
            let cfg = GenCfg { budget: 60, reentry: 3, closures: 4, tables: 5, expr_stmt: 0, wide_globals: false, abort: false, ..GenCfg::default() };
            let p = gen_program(&mut c, &cfg);
            // only programs inside the defined semantics (no self-referencing tables ...)
            if matches!(crate::refsem::run_reference(&p, 40_000).outcome, Err(crate::refsem::ErrKind::Undefined(_))) {
                programs.push(template(&mut c));
            } else {
                programs.push(("generated".to_string(), p));
            }
        }
    }
    let limit0 = *c.pick(&LIMITS);
    if c.chance(40) {
        let n = *c.pick(&[3usize, 17, 100, 258, 300]);
        return Case { programs, steps: vec![], limit0, repetition: Some((0, n, c.bool())) };
    }
    let n = 2 + c.draw(39);
    let mut steps = vec![];
    for _ in 0..n {
        if c.exhausted() && steps.len() >= 2 {
            break;
        }
        steps.push(match c.weighted(&[10, 5, 2]) {
            0 => Step::Run(c.draw(np), *c.pick(&[50u64, 400, 3000, 100_000])),
            1 => Step::Clear,
            _ => Step::SetLimit(*c.pick(&LIMITS)),
        });
    }
    Case { programs, steps, limit0, repetition: None }
}

#[derive(Debug, Clone, PartialEq)]
struct After {
    instr: u64,
    allocated: usize,
    next_gc: usize,
    collections: u64,
    stack: usize,
    /// which of the program's globals the host finds defined after the run
    defined: Vec<bool>,
}

fn make_vm(limit: usize) -> Vm<'static, Host> {
    let cfg = RunCfg { max_instr: 1000, mem_limit: limit, stack: 256, calls: 256 };
    let vm = new_vm(&cfg);
    verif::alloc_hooks(&vm.runtime_data).collections = 0;
    vm
}

fn run_once(vm: &mut Vm<'static, Host>, prog: &CaoCompiledProgram, globals: &[String], budget: u64) -> (Obs, After) {
    vm.max_instr = budget;
    vm.verif_instr_executed = 0;
    verif::alloc_hooks(&vm.runtime_data).collections = 0;
    let obs = run_on(vm, prog, globals);
    let (allocated, next_gc, _) = inspect::allocator_counters(&vm.runtime_data);
    let after = After {
        instr: vm.verif_instr_executed,
        allocated,
        next_gc,
        collections: verif::alloc_hooks(&vm.runtime_data).collections,
        stack: inspect::value_stack_len(&vm.runtime_data),
        defined: globals.iter().map(|g| vm.read_var_by_name(g, &prog.variables).is_some()).collect(),
    };
    (obs, after)
}

fn obs_diff(a: &Obs, b: &Obs) -> Option<String> {
    if a.outcome != b.outcome {
        return Some(format!("outcome {:?} vs {:?}", a.outcome, b.outcome));
    }
    if let Some(d) = log_eq(&a.log, &b.log) {
        return Some(d);
    }
    for (k, v) in &a.globals {
        if !b.globals.get(k).map(|w| w.obs_eq(v)).unwrap_or(false) {
            return Some(format!("global {} differs: {} vs {}", k, v.to_json(), b.globals.get(k).map(|w| w.to_json().to_string()).unwrap_or_default()));
        }
    }
    None
}

impl Property for C17 {
    fn id(&self) -> &'static str {
        "C17"
    }
    fn rule(&self) -> &'static str {
        "case = 1-3 programs (generated well-scoped programs and 10 templates: a read of a global whose only assignment is in a branch not taken, reads of three locals whose only assignments are in a branch not taken before or after a call with 1-4 arguments has used the slots above them, and programs ending in CallStackOverflow / Stackoverflow / Timeout / OutOfMemory / native error / error inside a native->script callback with an open upvalue / success after > threshold garbage / closure with open upvalue left in a global) and either a history of 2-40 steps run(program, budget in {50,400,3000,100000}) / clear / set_memory_limit({24K,64K,400K,4M}) on ONE VM, or a repetition class: the first program run n in {3,17,100,258,300} times with or without clear in between. Oracles: a run directly after clear / set_memory_limit / VM creation is replayed on a new VM with the same limit and budget: observation, dispatched instructions, allocated bytes, next collection threshold, number of collections, value-stack height and the set of globals the host finds defined after the run must be equal; the history executed twice yields identical observation sequences; repetition: every run equals the first (without clear only for programs whose first run succeeded and left the value stack empty). non-trivial = a checked step follows a run that ended in an error or collected, or a repetition with n >= 257; distinct by hash of the decoded case"
    }
    fn assumptions(&self) -> Vec<String> {
        vec![
            "generated programs never read a global before assigning it in the same run, so runs without clear are comparable".into(),
            "value-stack and call-stack sizes are fixed at 256 (they belong to the runtime object, not to a run)".into(),
        ]
    }
    fn max_len(&self) -> usize {
        1800
    }
    fn quick_cases(&self) -> u64 {
        48_000
    }
    fn states_termination(&self) -> bool {
        true
    }
    fn case_timeout(&self) -> std::time::Duration {
        std::time::Duration::from_secs(40)
    }
    fn describe(&self, bytes: &[u8]) -> J {
        let c = decode(bytes);
        json!({"programs": c.programs.iter().map(|(n, p)| json!({"kind": n, "program": program_json(p)})).collect::<Vec<_>>(), "limit": c.limit0, "steps": c.steps.iter().map(|s| format!("{:?}", s)).collect::<Vec<_>>(), "repetition": format!("{:?}", c.repetition)})
    }
    fn run(&self, bytes: &[u8], _tier: Tier) -> CaseOut {
        let case = decode(bytes);
        let fp = fnv64(format!("{:?}{:?}{:?}{}", case.programs.iter().map(|p| &p.1).collect::<Vec<_>>(), case.steps, case.repetition, case.limit0).as_bytes());
        let mut labels: Vec<String> = case.programs.iter().map(|(n, _)| format!("prog:{}", n)).collect();
        let mk = |clause: &str, d: String| CaseOut {
            verdict: Verdict::Fail(Failure::new(clause, &format!("c17:{}", clause), d)),
            nontrivial: false,
            labels: vec![],
            fingerprint: fp,
            execs: 1,
        };
        let mut compiled = vec![];
        for (_, p) in &case.programs {
            match compile_program(p) {
                Ok(c) => compiled.push(c),
                Err(e) => return mk("compiles", format!("{}", e)),
            }
        }
        let mut execs = 0u64;
        let mut nontrivial = false;

        if let Some((pi, n, with_clear)) = case.repetition {
            labels.push(if with_clear { "repeat_with_clear".into() } else { "repeat_without_clear".into() });
            let mut vm = make_vm(case.limit0);
            let globals = &case.programs[pi].1.globals;
            let (first, a1) = run_once(&mut vm, &compiled[pi], globals, 100_000);
            execs += 1;
            if !with_clear && !(first.outcome.is_ok() && a1.stack == 0) {
                // not a stack-balanced, successful program: the class does not apply
                return CaseOut { verdict: Verdict::Pass, nontrivial: false, labels, fingerprint: fp, execs };
            }
            for k in 2..=n {
                if with_clear {
                    vm.clear();
                }
                let (obs, ak) = run_once(&mut vm, &compiled[pi], globals, 100_000);
                execs += 1;
                if let Some(d) = obs_diff(&first, &obs) {
                    return mk(if with_clear { "run_clear_repeatable" } else { "repeated_runs_do_not_leak" }, format!("run #{} of {} differs from the first: {}", k, n, d));
                }
                if with_clear && ak != a1 {
                    return mk("cleared_vm_like_fresh", format!("run #{} after clear: {:?}, first run: {:?}", k, ak, a1));
                }
            }
            if n >= 257 {
                labels.push("n>=257".into());
                nontrivial = true;
            }
            return CaseOut { verdict: Verdict::Pass, nontrivial, labels, fingerprint: fp, execs };
        }

        // history, executed twice for determinism
        let mut sequences: Vec<Vec<Obs>> = vec![];
        for round in 0..2 {
            let mut vm = make_vm(case.limit0);
            let mut limit = case.limit0;
            let mut fresh_equivalent = true;
            let mut prev_was_hard = false;
            let mut seq = vec![];
            for (i, step) in case.steps.iter().enumerate() {
                match step {
                    Step::Clear => {
                        vm.clear();
                        fresh_equivalent = true;
                    }
                    Step::SetLimit(l) => {
                        vm.runtime_data.set_memory_limit(*l);
                        limit = *l;
                        fresh_equivalent = true;
                    }
                    Step::Run(pi, budget) => {
                        let globals = &case.programs[*pi].1.globals;
                        let (obs, after) = run_once(&mut vm, &compiled[*pi], globals, *budget);
                        execs += 1;
                        if round == 0 && fresh_equivalent {
                            let mut fresh = make_vm(limit);
                            let (fobs, fafter) = run_once(&mut fresh, &compiled[*pi], globals, *budget);
                            execs += 1;
                            if let Some(d) = obs_diff(&fobs, &obs) {
                                return mk("cleared_vm_like_fresh", format!("step {} {:?} ({}): new VM vs cleared VM: {}", i, step, case.programs[*pi].0, d));
                            }
                            if fafter != after {
                                return mk("cleared_vm_like_fresh", format!("step {} {:?} ({}): new VM {:?}, cleared VM {:?}", i, step, case.programs[*pi].0, fafter, after));
                            }
                            if prev_was_hard {
                                nontrivial = true;
                                labels.push("checked_after_error_or_gc".into());
                            }
                        }
                        prev_was_hard = obs.outcome.is_err() || after.collections > 0;
                        if let Err(k) = &obs.outcome {
                            labels.push(format!("ends:{}", k.split('(').next().unwrap_or("")));
                        }
                        fresh_equivalent = false;
                        seq.push(obs);
                    }
                }
            }
            sequences.push(seq);
        }
        for (k, (a, b)) in sequences[0].iter().zip(sequences[1].iter()).enumerate() {
            if let Some(d) = obs_diff(a, b) {
                return mk("runs_are_deterministic", format!("run #{} of the history differs between two executions of the same history: {}", k, d));
            }
        }
        labels.sort();
        labels.dedup();
        CaseOut { verdict: Verdict::Pass, nontrivial, labels, fingerprint: fp, execs: execs.max(1) }
    }
    fn label_floors(&self) -> Vec<(&'static str, f64)> {
        vec![("checked_after_error_or_gc", 0.15), ("n>=257", 0.03), ("ends:OutOfMemory", 0.02), ("ends:Timeout", 0.1)]
    }
}
