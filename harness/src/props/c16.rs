//! C16 — the module editing API is index-consistent and atomic.
//!
//! Arbitrary modules (every card kind, generator-assigned unique CardIds) x histories of
//! get/insert/remove/replace/swap/walk with valid and invalid indices. Oracle: a plain tree-edit
//! model over (CardId, kind, children) built with an independent child-numbering table; failed
//! edits must leave the module byte-identical (serde_json text + id tree).

use crate::choice::{fnv64, Choices};
use crate::engine::{CaseOut, Failure, Property, Tier, Verdict};
use crate::gencards::*;
use cao_lang::compiler::{Card, CardBody, CardIndex, Module};
use serde_json::{json, Value as J};
use std::collections::BTreeSet;

pub struct C16;

#[derive(Clone, Debug)]
struct MNode {
    /// 0 = placeholder created by the implementation (id unknown)
    id: u64,
    kind: String,
    pk: ParentKind,
    is_repeat: bool,
    children: Vec<MNode>,
}

fn to_model(card: &Card) -> MNode {
    MNode {
        id: card.id.0,
        kind: card.name().to_string(),
        pk: parent_kind(card),
        is_repeat: matches!(card.body, CardBody::Repeat(_)),
        children: children_of(card).into_iter().map(to_model).collect(),
    }
}

fn placeholder(kind: &str) -> MNode {
    MNode { id: 0, kind: kind.to_string(), pk: ParentKind::Leaf, is_repeat: false, children: vec![] }
}

fn same(a: &MNode, b: &MNode) -> bool {
    (a.id == 0 || b.id == 0 || a.id == b.id)
        && a.kind == b.kind
        && a.children.len() == b.children.len()
        && a.children.iter().zip(b.children.iter()).all(|(x, y)| same(x, y))
}

#[derive(Clone, Debug)]
struct MModule {
    funcs: Vec<Vec<MNode>>,
}

type Path = (usize, Vec<u32>);

impl MModule {
    fn of(m: &Module) -> MModule {
        MModule { funcs: m.functions.iter().map(|(_, f)| f.cards.iter().map(to_model).collect()).collect() }
    }
    fn same(&self, o: &MModule) -> bool {
        self.funcs.len() == o.funcs.len()
            && self.funcs.iter().zip(o.funcs.iter()).all(|(a, b)| a.len() == b.len() && a.iter().zip(b.iter()).all(|(x, y)| same(x, y)))
    }
    fn node(&self, p: &Path) -> Option<&MNode> {
        let cards = self.funcs.get(p.0)?;
        let mut it = p.1.iter();
        let mut n = cards.get(*it.next()? as usize)?;
        for i in it {
            n = n.children.get(*i as usize)?;
        }
        Some(n)
    }
    fn node_mut(&mut self, p: &Path) -> Option<&mut MNode> {
        let cards = self.funcs.get_mut(p.0)?;
        let mut it = p.1.iter();
        let mut n = cards.get_mut(*it.next()? as usize)?;
        for i in it {
            n = n.children.get_mut(*i as usize)?;
        }
        Some(n)
    }
    fn all_paths(&self) -> Vec<(Path, u64)> {
        fn go(n: &MNode, f: usize, path: &mut Vec<u32>, out: &mut Vec<(Path, u64)>) {
            out.push(((f, path.clone()), n.id));
            for (i, ch) in n.children.iter().enumerate() {
                path.push(i as u32);
                go(ch, f, path, out);
                path.pop();
            }
        }
        let mut out = vec![];
        for (f, cards) in self.funcs.iter().enumerate() {
            for (i, c) in cards.iter().enumerate() {
                go(c, f, &mut vec![i as u32], &mut out);
            }
        }
        out
    }
    fn insert(&mut self, p: &Path, new: MNode) -> Result<bool, ()> {
        // Ok(true) = inserted into a list (remove undoes it), Ok(false) = replaced a fixed slot
        let Some(&i) = p.1.last() else { return Err(()) };
        let i = i as usize;
        if p.1.len() == 1 {
            let cards = self.funcs.get_mut(p.0).ok_or(())?;
            if i > cards.len() {
                return Err(());
            }
            cards.insert(i, new);
            return Ok(true);
        }
        let parent = self.node_mut(&(p.0, p.1[..p.1.len() - 1].to_vec())).ok_or(())?;
        match parent.pk {
            ParentKind::List => {
                if i > parent.children.len() {
                    return Err(());
                }
                parent.children.insert(i, new);
                Ok(true)
            }
            ParentKind::DynCall => {
                if i == 0 {
                    parent.children[0] = new;
                    Ok(false)
                } else if i <= parent.children.len() {
                    parent.children.insert(i, new);
                    Ok(true)
                } else {
                    Err(())
                }
            }
            ParentKind::Fixed => {
                if i < parent.children.len() {
                    parent.children[i] = new;
                    Ok(false)
                } else {
                    Err(())
                }
            }
            ParentKind::Leaf => Err(()),
        }
    }
    fn remove(&mut self, p: &Path) -> Result<MNode, ()> {
        let Some(&i) = p.1.last() else { return Err(()) };
        let i = i as usize;
        if p.1.len() == 1 {
            let cards = self.funcs.get_mut(p.0).ok_or(())?;
            if i >= cards.len() {
                return Err(());
            }
            return Ok(cards.remove(i));
        }
        let parent = self.node_mut(&(p.0, p.1[..p.1.len() - 1].to_vec())).ok_or(())?;
        if i >= parent.children.len() {
            return Err(());
        }
        match parent.pk {
            ParentKind::List => Ok(parent.children.remove(i)),
            ParentKind::DynCall => {
                if i == 0 {
                    Ok(std::mem::replace(&mut parent.children[0], placeholder("ScalarNil")))
                } else {
                    Ok(parent.children.remove(i))
                }
            }
            ParentKind::Fixed => {
                let ph = if parent.is_repeat && i == 0 { placeholder("ScalarInt") } else { placeholder("ScalarNil") };
                Ok(std::mem::replace(&mut parent.children[i], ph))
            }
            ParentKind::Leaf => Err(()),
        }
    }
    fn replace(&mut self, p: &Path, new: MNode) -> Result<MNode, ()> {
        let n = self.node_mut(p).ok_or(())?;
        Ok(std::mem::replace(n, new))
    }
    fn swap(&mut self, a: &Path, b: &Path) -> Result<(), ()> {
        let na = self.node(a).ok_or(())?.clone();
        let nb = self.node(b).ok_or(())?.clone();
        if a == b {
            return Ok(());
        }
        let is_prefix = |x: &Path, y: &Path| x.0 == y.0 && x.1.len() < y.1.len() && y.1[..x.1.len()] == x.1[..];
        if is_prefix(a, b) || is_prefix(b, a) {
            return Err(());
        }
        *self.node_mut(a).unwrap() = nb;
        *self.node_mut(b).unwrap() = na;
        Ok(())
    }
}

#[derive(Debug, Clone)]
enum Op {
    Get(Path),
    Insert(Path, u64),
    Remove(Path),
    Replace(Path, u64),
    Swap(Path, Path),
    Walk(bool),
    InsertThenRemove(Path, u64),
    ReplaceBack(Path, u64),
    SwapTwice(Path, Path),
}

/// choose an index: mostly valid (from the model), sometimes invalid in a specific way
fn gen_path(c: &mut Choices, m: &MModule, for_insert: bool) -> Path {
    let all = m.all_paths();
    let invalid = c.chance(76) || all.is_empty();
    if !invalid {
        let (p, _) = c.pick(&all).clone();
        if for_insert {
            // position among the siblings, including one past the end
            let mut p = p;
            let parent_len = if p.1.len() == 1 {
                m.funcs[p.0].len()
            } else {
                m.node(&(p.0, p.1[..p.1.len() - 1].to_vec())).map(|n| n.children.len()).unwrap_or(0)
            };
            *p.1.last_mut().unwrap() = c.draw(parent_len + 1) as u32;
            return p;
        }
        return p;
    }
    match c.draw(6) {
        0 => (m.funcs.len() + c.draw(3), vec![0]), // function out of range
        1 => (c.draw(m.funcs.len().max(1)), vec![]), // empty path
        2 => {
            // one past the end / far past the end of some child list
            if all.is_empty() {
                return (0, vec![7]);
            }
            let (mut p, _) = c.pick(&all).clone();
            let n = m.node(&p).map(|n| n.children.len()).unwrap_or(0);
            p.1.push((n + c.draw(3) + if for_insert { 1 } else { 0 }) as u32);
            p
        }
        3 => {
            // path through a leaf
            let leaves: Vec<&(Path, u64)> = all.iter().filter(|(p, _)| m.node(p).map(|n| n.children.is_empty()).unwrap_or(false)).collect();
            if leaves.is_empty() {
                return (0, vec![0, 0, 0, 0, 0, 0]);
            }
            let mut p = c.pick(&leaves).0.clone();
            p.1.push(0);
            if c.bool() {
                p.1.push(0);
            }
            p
        }
        4 => (0, vec![u32::MAX - c.draw(3) as u32]),
        _ => {
            if all.is_empty() {
                return (0, vec![1, 1]);
            }
            let (mut p, _) = c.pick(&all).clone();
            *p.1.last_mut().unwrap() += 50;
            p
        }
    }
}

struct Case {
    module: Module,
    ops: Vec<Op>,
    new_cards: Vec<Card>,
}

fn decode(bytes: &[u8]) -> Case {
    let mut c = Choices::new(bytes);
    let mut g = CardGen::new();
    let mut module = g.module(&mut c, 0);
    // one case in three: the module also has submodules with their own functions and cards. Those
    // cards belong to the submodules (their indices start again at function 0 there): the edit API
    // and the walk of this module must neither see nor touch them
    if c.chance(85) {
        let ns = 1 + c.draw(2);
        for k in 0..ns {
            let sub = g.module(&mut c, if k == 0 { 1 } else { 0 });
            module.submodules.push((format!("sub{}", k), sub));
        }
    }
    // the op list is generated against a model that evolves with the ops, so that "valid" indices
    // stay valid in the middle of a history
    let mut model = MModule::of(&module);
    let n = c.draw(41);
    let mut ops = vec![];
    let mut new_cards: Vec<Card> = vec![];
    for _ in 0..n {
        if c.exhausted() {
            break;
        }
        let mut fresh = |c: &mut Choices, g: &mut CardGen, new_cards: &mut Vec<Card>| -> u64 {
            let card = g.card(c, 2);
            let id = card.id.0;
            new_cards.push(card);
            id
        };
        let op = match c.weighted(&[4, 10, 10, 8, 8, 3, 5, 5, 4]) {
            0 => Op::Get(gen_path(&mut c, &model, false)),
            1 => {
                let p = gen_path(&mut c, &model, true);
                let id = fresh(&mut c, &mut g, &mut new_cards);
                let _ = model.insert(&p, to_model(new_cards.last().unwrap()));
                Op::Insert(p, id)
            }
            2 => {
                let p = gen_path(&mut c, &model, false);
                let _ = model.remove(&p);
                Op::Remove(p)
            }
            3 => {
                let p = gen_path(&mut c, &model, false);
                let id = fresh(&mut c, &mut g, &mut new_cards);
                let _ = model.replace(&p, to_model(new_cards.last().unwrap()));
                Op::Replace(p, id)
            }
            4 => {
                let a = gen_path(&mut c, &model, false);
                let b = if c.chance(30) { a.clone() } else { gen_path(&mut c, &model, false) };
                let _ = model.swap(&a, &b);
                Op::Swap(a, b)
            }
            5 => Op::Walk(c.bool()),
            6 => {
                let p = gen_path(&mut c, &model, true);
                Op::InsertThenRemove(p, fresh(&mut c, &mut g, &mut new_cards))
            }
            7 => {
                let p = gen_path(&mut c, &model, false);
                Op::ReplaceBack(p, fresh(&mut c, &mut g, &mut new_cards))
            }
            _ => {
                let a = gen_path(&mut c, &model, false);
                let b = gen_path(&mut c, &model, false);
                Op::SwapTwice(a, b)
            }
        };
        ops.push(op);
    }
    Case { module, ops, new_cards }
}

fn idx(p: &Path) -> CardIndex {
    CardIndex::from_slice(p.0, &p.1)
}

fn text(m: &Module) -> String {
    serde_json::to_string(m).unwrap_or_else(|e| format!("<serialize error {}>", e))
}

/// child enumeration, child count and child lookup agree for every card of the module
fn consistency(m: &Module) -> Result<(), String> {
    fn go(card: &Card) -> Result<(), String> {
        let mine = children_of(card);
        let n = card.num_children() as usize;
        let it: Vec<&Card> = card.iter_children().collect();
        if it.len() != n {
            return Err(format!("{}: iter_children yields {} cards, num_children says {}", card.name(), it.len(), n));
        }
        if mine.len() != n {
            return Err(format!("{}: {} children by the documented layout, num_children says {}", card.name(), mine.len(), n));
        }
        for i in 0..n {
            match card.get_child(i) {
                Some(ch) if ch.id == it[i].id && ch.id == mine[i].id => {}
                other => return Err(format!("{}: get_child({}) = {:?}, iter_children gives {:?}", card.name(), i, other.map(|c| c.id), it[i].id)),
            }
        }
        if card.get_child(n).is_some() {
            return Err(format!("{}: get_child({}) beyond the last child is Some", card.name(), n));
        }
        for ch in mine {
            go(ch)?;
        }
        Ok(())
    }
    for (_, f) in &m.functions {
        for c in &f.cards {
            go(c)?;
        }
    }
    Ok(())
}

struct Obs {
    deep_edit_non_composite: bool,
    failed_edit: bool,
    parents: BTreeSet<String>,
}

fn run_case(case: &Case, obs: &mut Obs) -> Option<Failure> {
    let mut module = case.module.clone();
    let mut model = MModule::of(&module);
    let mk = |step: usize, op: &str, clause: &str, d: String| Some(Failure::new(clause, &format!("edit:{}:{}", op, clause), format!("step {} ({}): {}", step, op, d)));
    let card_by_id = |id: u64| case.new_cards.iter().find(|c| c.id.0 == id).cloned().expect("new card");
    if let Err(e) = consistency(&module) {
        return mk(0, "generated", "child_numbering_consistent", e);
    }
    for (step, op) in case.ops.iter().enumerate() {
        let before_text = text(&module);
        let before_model = model.clone();
        let mut expect_unchanged = false;
        let parent_kind_name = |m: &MModule, p: &Path| -> Option<String> {
            if p.1.len() < 2 {
                return None;
            }
            m.node(&(p.0, p.1[..p.1.len() - 1].to_vec())).map(|n| n.kind.clone())
        };
        match op {
            Op::Get(p) => {
                let exp = model.node(p).map(|n| n.id);
                let got = module.get_card(&idx(p)).ok().map(|c| c.id.0);
                let got_mut = module.get_card_mut(&idx(p)).ok().map(|c| c.id.0);
                let ok = match (exp, got) {
                    (Some(0), Some(_)) => true,
                    (e, g) => e == g,
                };
                if !ok || got != got_mut {
                    return mk(step, "get", "get_card_result", format!("get_card({:?}) = {:?} / mut {:?}, model {:?}", p, got, got_mut, exp));
                }
                expect_unchanged = true;
            }
            Op::Insert(p, id) => {
                let new = card_by_id(*id);
                let exp = model.insert(p, to_model(&new));
                let got = module.insert_card(&idx(p), new);
                if exp.is_ok() != got.is_ok() {
                    let clause = if exp.is_err() { "invalid_index_fails" } else { "valid_edit_succeeds" };
                    return mk(step, "insert", clause, format!("insert_card({:?}) -> {:?}, model {:?} (parent {:?})", p, got.map_err(|e| e.to_string()), exp, parent_kind_name(&before_model, p)));
                }
                if exp.is_err() {
                    expect_unchanged = true;
                    obs.failed_edit = true;
                } else if let Some(k) = parent_kind_name(&before_model, p) {
                    obs.parents.insert(format!("insert@{}", k));
                    if k != "t" {
                        obs.deep_edit_non_composite = true;
                    }
                }
            }
            Op::Remove(p) => {
                let exp = model.remove(p);
                let got = module.remove_card(&idx(p));
                match (&exp, &got) {
                    (Ok(e), Ok(g)) => {
                        if e.id != 0 && e.id != g.id.0 {
                            return mk(step, "remove", "remove_returns_card", format!("remove_card({:?}) returned card {:?}, model {:?}", p, g.id, e.id));
                        }
                        if let Some(k) = parent_kind_name(&before_model, p) {
                            obs.parents.insert(format!("remove@{}", k));
                            if k != "t" {
                                obs.deep_edit_non_composite = true;
                            }
                        }
                    }
                    (Err(_), Err(_)) => {
                        expect_unchanged = true;
                        obs.failed_edit = true;
                    }
                    _ => {
                        let clause = if exp.is_err() { "invalid_index_fails" } else { "valid_edit_succeeds" };
                        return mk(step, "remove", clause, format!("remove_card({:?}) -> {:?}, model {:?}", p, got.as_ref().map(|c| c.id).map_err(|e| e.to_string()), exp.as_ref().map(|n| n.id)));
                    }
                }
            }
            Op::Replace(p, id) => {
                let new = card_by_id(*id);
                let exp = model.replace(p, to_model(&new));
                let got = module.replace_card(&idx(p), new);
                match (&exp, &got) {
                    (Ok(e), Ok(g)) => {
                        if e.id != 0 && e.id != g.id.0 {
                            return mk(step, "replace", "replace_returns_old", format!("replace_card({:?}) returned {:?}, model {:?}", p, g.id, e.id));
                        }
                        if let Some(k) = parent_kind_name(&before_model, p) {
                            obs.parents.insert(format!("replace@{}", k));
                            if k != "t" {
                                obs.deep_edit_non_composite = true;
                            }
                        }
                    }
                    (Err(_), Err(_)) => {
                        expect_unchanged = true;
                        obs.failed_edit = true;
                    }
                    _ => {
                        let clause = if exp.is_err() { "invalid_index_fails" } else { "valid_edit_succeeds" };
                        return mk(step, "replace", clause, format!("replace_card({:?}) ok={}, model ok={}", p, got.is_ok(), exp.is_ok()));
                    }
                }
            }
            Op::Swap(a, b) => {
                let exp = model.swap(a, b);
                let got = module.swap_cards(&idx(a), &idx(b));
                if exp.is_ok() != got.is_ok() {
                    let clause = if exp.is_err() { "invalid_swap_fails" } else { "valid_edit_succeeds" };
                    return mk(step, "swap", clause, format!("swap_cards({:?},{:?}) -> {:?}, model {:?}", a, b, got.map_err(|e| e.to_string()), exp));
                }
                if exp.is_err() {
                    expect_unchanged = true;
                    obs.failed_edit = true;
                } else if a == b {
                    obs.parents.insert("swap_self".into());
                }
            }
            Op::Walk(mutable) => {
                let mut visited: Vec<(Path, u64)> = vec![];
                if *mutable {
                    module.walk_cards_mut(|i, c| visited.push(((i.function, i.card_index.indices.to_vec()), c.id.0)));
                } else {
                    module.walk_cards(|i, c| visited.push(((i.function, i.card_index.indices.to_vec()), c.id.0)));
                }
                let mut ids = BTreeSet::new();
                for (p, id) in &visited {
                    if !ids.insert(*id) {
                        return mk(step, "walk", "walk_visits_each_once", format!("card {:?} visited twice", id));
                    }
                    match module.get_card(&idx(p)) {
                        Ok(c) if c.id.0 == *id => {}
                        other => return mk(step, "walk", "walk_index_resolves", format!("walk reported {:?} for card {}, get_card gives {:?}", p, id, other.map(|c| c.id).map_err(|e| e.to_string()))),
                    }
                }
                let expected = model.all_paths();
                if visited.len() != expected.len() {
                    return mk(step, "walk", "walk_visits_each_once", format!("walk visited {} cards, the module has {}", visited.len(), expected.len()));
                }
                let vs: BTreeSet<&Path> = visited.iter().map(|(p, _)| p).collect();
                for (p, _) in &expected {
                    if !vs.contains(p) {
                        return mk(step, "walk", "walk_index_resolves", format!("card at {:?} not reported by walk", p));
                    }
                }
                expect_unchanged = true;
            }
            Op::InsertThenRemove(p, id) => {
                let new = card_by_id(*id);
                let mut scratch = model.clone();
                let exp = scratch.insert(p, to_model(&new));
                let got = module.insert_card(&idx(p), new);
                if exp.is_ok() != got.is_ok() {
                    let clause = if exp.is_err() { "invalid_index_fails" } else { "valid_edit_succeeds" };
                    return mk(step, "insert", clause, format!("insert_card({:?}) ok={}, model ok={} (parent {:?})", p, got.is_ok(), exp.is_ok(), parent_kind_name(&before_model, p)));
                }
                match exp {
                    Ok(true) => {
                        match module.remove_card(&idx(p)) {
                            Ok(c) if c.id.0 == *id => {}
                            other => return mk(step, "insert_remove", "remove_undoes_insert", format!("remove after insert at {:?} returned {:?}", p, other.map(|c| c.id).map_err(|e| e.to_string()))),
                        }
                        expect_unchanged = true;
                        if let Some(k) = parent_kind_name(&before_model, p) {
                            obs.parents.insert(format!("insert_remove@{}", k));
                        }
                    }
                    Ok(false) => {
                        model = scratch; // fixed slot: the insert replaced a child, keep it
                    }
                    Err(()) => {
                        expect_unchanged = true;
                        obs.failed_edit = true;
                    }
                }
            }
            Op::ReplaceBack(p, id) => {
                let new = card_by_id(*id);
                match module.replace_card(&idx(p), new) {
                    Ok(old) => {
                        if model.node(p).is_none() {
                            return mk(step, "replace", "invalid_index_fails", format!("replace_card({:?}) succeeded on an invalid index", p));
                        }
                        match module.replace_card(&idx(p), old) {
                            Ok(c) if c.id.0 == *id => {}
                            other => return mk(step, "replace_back", "replace_back_restores", format!("second replace returned {:?}", other.map(|c| c.id).map_err(|e| e.to_string()))),
                        }
                    }
                    Err(_) => {
                        if model.node(p).is_some() {
                            return mk(step, "replace", "valid_edit_succeeds", format!("replace_card({:?}) failed on a valid index", p));
                        }
                        obs.failed_edit = true;
                    }
                }
                expect_unchanged = true;
            }
            Op::SwapTwice(a, b) => {
                let mut scratch = model.clone();
                let exp = scratch.swap(a, b);
                let got = module.swap_cards(&idx(a), &idx(b));
                if exp.is_ok() != got.is_ok() {
                    let clause = if exp.is_err() { "invalid_swap_fails" } else { "valid_edit_succeeds" };
                    return mk(step, "swap", clause, format!("swap_cards({:?},{:?}) ok={}, model ok={}", a, b, got.is_ok(), exp.is_ok()));
                }
                if got.is_ok() {
                    if module.swap_cards(&idx(a), &idx(b)).is_err() {
                        return mk(step, "swap_twice", "swap_twice_identity", "second swap failed".into());
                    }
                } else {
                    obs.failed_edit = true;
                }
                expect_unchanged = true;
            }
        }
        let now = MModule::of(&module);
        if expect_unchanged {
            let t = text(&module);
            if t != before_text || !now.same(&before_model) {
                let clause = match op {
                    Op::InsertThenRemove(..) => "remove_undoes_insert",
                    Op::ReplaceBack(..) => "replace_back_restores",
                    Op::SwapTwice(..) => "swap_twice_identity",
                    Op::Get(..) | Op::Walk(..) => "read_only_op_changes_nothing",
                    _ => "failed_edit_is_noop",
                };
                return mk(step, "any", clause, format!("{:?}: module changed although it must not", op));
            }
            model = before_model;
        } else if !now.same(&model) {
            return mk(step, "any", "edit_changes_exactly_addressed", format!("{:?}: module differs from the tree-edit model", op));
        }
        if let Err(e) = consistency(&module) {
            return mk(step, "any", "child_numbering_consistent", e);
        }
    }
    None
}

impl Property for C16 {
    fn id(&self) -> &'static str {
        "C16"
    }
    fn rule(&self) -> &'static str {
        "case = arbitrary module (1-4 functions, every card kind incl. 0-child kinds, empty argument lists, nested closures; unique CardIds; in a third of the cases 1-2 submodules, one of them nested, with their own functions and cards that the parent's walk and edit API must neither see nor touch) + history of <=40 ops (get, insert, remove, replace, swap, walk, and the law pairs insert;remove / replace;replace-back / swap;swap) whose indices are valid w.r.t. the evolving model in ~70% and invalid in a specific way otherwise (function out of range, empty path, past the end, through a leaf, huge); oracle = tree-edit model over (CardId, kind, children) with its own child-numbering table: Ok/Err must agree, successful edits must change exactly the addressed card(s), failed edits and law pairs must leave serde_json text and id-tree identical; child count / enumeration / lookup must agree for every card after every op. non-trivial = >=1 successful edit below a parent other than a composite AND >=1 failed edit; distinct by hash of decoded case"
    }
    fn assumptions(&self) -> Vec<String> {
        vec![
            "list-like parents: CompositeCard, Closure, Call/CallNative arguments, Array, DynamicCall arguments; all other parents have fixed slots where insert replaces and remove leaves a placeholder (doc comment of insert_child)".into(),
            "swap(a, a) is expected to be the identity".into(),
            "the wasm wrapper only forwards to these methods and is not built offline".into(),
        ]
    }
    fn max_len(&self) -> usize {
        1500
    }
    fn quick_cases(&self) -> u64 {
        640_000
    }
    fn describe(&self, bytes: &[u8]) -> J {
        let case = decode(bytes);
        json!({"module": serde_json::to_value(&case.module).unwrap_or(J::Null), "ops": case.ops.iter().map(|o| format!("{:?}", o)).collect::<Vec<_>>()})
    }
    fn run(&self, bytes: &[u8], _tier: Tier) -> CaseOut {
        let case = decode(bytes);
        let fp = fnv64(format!("{:?}{}", case.ops, text(&case.module)).as_bytes());
        let mut obs = Obs { deep_edit_non_composite: false, failed_edit: false, parents: BTreeSet::new() };
        let fail = run_case(&case, &mut obs);
        let mut labels: Vec<String> = obs.parents.iter().cloned().collect();
        if !case.module.submodules.is_empty() {
            labels.push("submodules_with_cards".into());
        }
        if obs.failed_edit {
            labels.push("failed_edit".into());
        }
        if obs.deep_edit_non_composite {
            labels.push("deep_edit_non_composite".into());
        }
        CaseOut {
            verdict: match fail {
                Some(f) => Verdict::Fail(f),
                None => Verdict::Pass,
            },
            nontrivial: obs.deep_edit_non_composite && obs.failed_edit,
            labels,
            fingerprint: fp,
            execs: 1,
        }
    }
    fn label_floors(&self) -> Vec<(&'static str, f64)> {
        vec![("failed_edit", 0.3), ("deep_edit_non_composite", 0.2)]
    }
}
