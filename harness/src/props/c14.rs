//! C14 — the value stack and bounded stack are bounded LIFO stacks.
//!
//! Generator: capacity 1..=40 (1,2,3 over-represented) x history of up to 150 operations.
//! Oracle: a Vec-based bounded-stack model compared after every operation (result, len, contents).

use crate::choice::{fnv64, Choices};
use crate::engine::{CaseOut, Failure, Property, Tier, Verdict};
use cao_lang::collections::bounded_stack::BoundedStack;
use cao_lang::collections::value_stack::ValueStack;
use cao_lang::value::Value;
use serde_json::{json, Value as J};
use std::cell::RefCell;
use std::rc::Rc;

pub struct C14;

#[derive(Debug, Clone)]
enum Op {
    Push,
    Pop,
    PopN(u8),
    PopWOffset(usize),
    Set(usize),
    Get(usize),
    Last,
    PeekLast(usize),
    Clear,
    ClearUntil(usize), // resolved against the current length at run time: h = x * (len+1) >> 8
    Len,
    Iter,
    // bounded-stack only
    LastMutWrite,
    IterBackwards,
}

#[derive(Debug, Clone)]
struct Case {
    bounded: bool,
    cap: usize,
    ops: Vec<Op>,
}

fn decode(bytes: &[u8]) -> Case {
    let mut c = Choices::new(bytes);
    let bounded = c.draw(2) == 1;
    let cap = match c.draw(8) {
        0 => 1,
        1 => 2,
        2 => 3,
        3 => 4,
        _ => 1 + c.draw(40),
    };
    let n = c.draw(151);
    let mut ops = Vec::with_capacity(n);
    for _ in 0..n {
        if c.exhausted() {
            break;
        }
        let op = if bounded {
            match c.weighted(&[10, 6, 2, 2, 1, 1, 2, 2, 1]) {
                0 => Op::Push,
                1 => Op::Pop,
                2 => Op::Last,
                3 => Op::LastMutWrite,
                4 => Op::Clear,
                5 => Op::Len,
                6 => Op::Iter,
                7 => Op::IterBackwards,
                _ => Op::Push,
            }
        } else {
            match c.weighted(&[14, 5, 3, 2, 3, 2, 1, 2, 1, 3, 1, 2]) {
                0 => Op::Push,
                1 => Op::Pop,
                2 => Op::PopN(*c.pick(&[1u8, 2, 3, 8])),
                3 => Op::PopWOffset(c.draw(6)),
                4 => Op::Set(c.draw(44)),
                5 => Op::Get(c.draw(44)),
                6 => Op::Last,
                7 => Op::PeekLast(c.draw(8)),
                8 => Op::Clear,
                9 => Op::ClearUntil(c.byte() as usize),
                10 => Op::Len,
                _ => Op::Iter,
            }
        };
        ops.push(op);
    }
    Case { bounded, cap, ops }
}

fn veq(a: Value, b: Value) -> bool {
    match (a, b) {
        (Value::Nil, Value::Nil) => true,
        (Value::Integer(x), Value::Integer(y)) => x == y,
        (Value::Real(x), Value::Real(y)) => x.to_bits() == y.to_bits(),
        _ => false,
    }
}

fn vs(a: Value) -> String {
    match a {
        Value::Nil => "nil".into(),
        Value::Integer(x) => format!("{}", x),
        Value::Real(x) => format!("{:?}r", x),
        Value::Object(_) => "obj".into(),
    }
}

struct Outcome {
    fail: Option<Failure>,
    reached_full: bool,
    failed_push: bool,
    underflow_after_bulk: bool,
    set_at_height: bool,
}

fn run_value_stack(case: &Case) -> Outcome {
    let mut out = Outcome {
        fail: None,
        reached_full: false,
        failed_push: false,
        underflow_after_bulk: false,
        set_at_height: false,
    };
    let cap = case.cap;
    let mut st = ValueStack::new(cap);
    let mut model: Vec<Value> = vec![];
    let mut next = 1000i64;
    let mut bulk_emptied = false; // the stack was last emptied by pop_n / clear_until / pop_w_offset
    macro_rules! fail {
        ($step:expr, $op:expr, $clause:expr, $($arg:tt)*) => {{
            out.fail = Some(Failure::new(
                $clause,
                &format!("vs:{}:{}", $op, $clause),
                format!("step {} {:?}: {}", $step, case.ops[$step], format!($($arg)*)),
            ));
            return out;
        }};
    }
    for (step, op) in case.ops.iter().enumerate() {
        match op {
            Op::Push => {
                next += 1;
                let v = if next % 7 == 0 { Value::Real(next as f64 + 0.5) } else { Value::Integer(next) };
                let r = st.push(v);
                let len = model.len();
                match r {
                    Ok(()) => {
                        if len + 1 > cap {
                            fail!(step, "push", "capacity_exceeded", "push succeeded with len={} cap={}", len, cap);
                        }
                        model.push(v);
                    }
                    Err(_) => {
                        out.failed_push = true;
                        if len + 2 <= cap {
                            fail!(step, "push", "push_must_succeed", "push failed with len={} cap={} (two slots free)", len, cap);
                        }
                    }
                }
                if model.len() + 1 >= cap {
                    out.reached_full = true;
                }
                bulk_emptied = false;
            }
            Op::Pop => {
                let expect = model.pop().unwrap_or(Value::Nil);
                let was_empty_after_bulk = model.is_empty() && bulk_emptied;
                let got = st.pop();
                if was_empty_after_bulk && veq(expect, Value::Nil) {
                    out.underflow_after_bulk = true;
                }
                if !veq(got, expect) {
                    let clause = if was_empty_after_bulk { "pop_empty_after_bulk_is_nil" } else { "pop_result" };
                    fail!(step, "pop", clause, "pop returned {} expected {}", vs(got), vs(expect));
                }
            }
            Op::PopN(n) => {
                let n = *n as usize;
                let mut expect = vec![Value::Nil; n];
                for e in expect.iter_mut() {
                    if let Some(v) = model.pop() {
                        *e = v;
                    }
                }
                let got: Vec<Value> = match n {
                    1 => st.pop_n::<1>().to_vec(),
                    2 => st.pop_n::<2>().to_vec(),
                    3 => st.pop_n::<3>().to_vec(),
                    _ => st.pop_n::<8>().to_vec(),
                };
                for i in 0..n {
                    if !veq(got[i], expect[i]) {
                        fail!(step, "pop_n", "pop_n_result", "pop_n[{}] = {} expected {}", i, vs(got[i]), vs(expect[i]));
                    }
                }
                if model.is_empty() {
                    bulk_emptied = true;
                }
            }
            Op::PopWOffset(o) => {
                let expect = if model.len() <= *o { Value::Nil } else { model.pop().unwrap() };
                let got = st.pop_w_offset(*o);
                if !veq(got, expect) {
                    fail!(step, "pop_w_offset", "pop_w_offset_result", "got {} expected {}", vs(got), vs(expect));
                }
            }
            Op::Set(i) => {
                next += 1;
                let v = Value::Integer(next);
                let len = model.len();
                // raw indices 36.. address slots relative to the height: at it, above it, the top
                let i = &match *i {
                    36..=39 => len,
                    40 | 41 => len + 1,
                    42 | 43 => len.saturating_sub(1),
                    r => r,
                };
                // "a write at the current height pushes": a twin stack with the same contents
                // says what push does in this state
                let twin_push_ok = if *i == len {
                    let mut twin = ValueStack::new(cap);
                    if model.iter().all(|m| twin.push(*m).is_ok()) {
                        Some(twin.push(v).is_ok())
                    } else {
                        None
                    }
                } else {
                    None
                };
                let r = st.set(*i, v);
                if let (Some(p), true) = (twin_push_ok, *i == len) {
                    if p != r.is_ok() {
                        fail!(step, "set", "set_at_height_is_push", "len={} cap={}: push on a stack with the same contents {} but set at the height {}", len, cap, if p { "succeeds" } else { "fails" }, if r.is_ok() { "succeeds" } else { "fails" });
                    }
                    if let Ok(old) = &r {
                        // the slot at the height holds no value (a read there is nil)
                        if !veq(*old, Value::Nil) {
                            fail!(step, "set", "set_returns_old", "set at the height returned {} as the old value of an unused slot", vs(*old));
                        }
                    }
                }
                if *i > len {
                    if r.is_ok() {
                        fail!(step, "set", "set_beyond_height_rejected", "set({}) with len {} returned Ok", i, len);
                    }
                } else if *i == len {
                    out.set_at_height = true;
                    match r {
                        Ok(_) => {
                            if len + 1 > cap {
                                fail!(step, "set", "capacity_exceeded", "set at height succeeded with len={} cap={}", len, cap);
                            }
                            model.push(v);
                        }
                        Err(_) => {
                            if len + 2 <= cap {
                                fail!(step, "set", "set_at_height_pushes", "set at height failed with len={} cap={}", len, cap);
                            }
                        }
                    }
                } else {
                    match r {
                        Ok(old) => {
                            if !veq(old, model[*i]) {
                                fail!(step, "set", "set_returns_old", "old {} expected {}", vs(old), vs(model[*i]));
                            }
                            model[*i] = v;
                        }
                        Err(e) => fail!(step, "set", "set_in_range_ok", "set({}) len {} failed: {}", i, len, e),
                    }
                }
                if !model.is_empty() {
                    bulk_emptied = false;
                }
            }
            Op::Get(i) => {
                let expect = model.get(*i).copied().unwrap_or(Value::Nil);
                let got = st.get(*i);
                if !veq(got, expect) {
                    fail!(step, "get", "get_result", "get({}) = {} expected {}", i, vs(got), vs(expect));
                }
            }
            Op::Last => {
                let expect = model.last().copied().unwrap_or(Value::Nil);
                let got = st.last();
                if !veq(got, expect) {
                    fail!(step, "last", "last_result", "last = {} expected {}", vs(got), vs(expect));
                }
            }
            Op::PeekLast(n) => {
                let expect = if model.len() > *n { model[model.len() - 1 - n] } else { Value::Nil };
                let got = st.peek_last(*n);
                if !veq(got, expect) {
                    fail!(step, "peek_last", "peek_last_result", "peek_last({}) = {} expected {}", n, vs(got), vs(expect));
                }
            }
            Op::Clear => {
                st.clear();
                model.clear();
                bulk_emptied = false;
            }
            Op::ClearUntil(x) => {
                // precondition respected by construction: h <= len
                let h = (*x * (model.len() + 1)) >> 8;
                let _ = st.clear_until(h);
                model.truncate(h);
                if model.is_empty() {
                    bulk_emptied = true;
                }
            }
            Op::Len => {}
            Op::Iter => {
                let got: Vec<Value> = st.iter().collect();
                if got.len() != model.len() || got.iter().zip(model.iter()).any(|(a, b)| !veq(*a, *b)) {
                    fail!(step, "iter", "iter_contents", "iter {:?} expected {:?}", got.iter().map(|v| vs(*v)).collect::<Vec<_>>(), model.iter().map(|v| vs(*v)).collect::<Vec<_>>());
                }
            }
            _ => {}
        }
        // after every op: len, is_empty, contents
        if st.len() != model.len() {
            fail!(step, "any", "len", "len {} expected {}", st.len(), model.len());
        }
        if st.is_empty() != model.is_empty() {
            fail!(step, "any", "is_empty", "is_empty mismatch");
        }
        if st.len() > cap {
            fail!(step, "any", "capacity_exceeded", "len {} > cap {}", st.len(), cap);
        }
        let sl = st.as_slice();
        if sl.len() != model.len() || sl.iter().zip(model.iter()).any(|(a, b)| !veq(*a, *b)) {
            fail!(step, "any", "contents", "contents {:?} expected {:?}", sl.iter().map(|v| vs(*v)).collect::<Vec<_>>(), model.iter().map(|v| vs(*v)).collect::<Vec<_>>());
        }
    }
    out
}

struct Ledger {
    drops: Vec<u32>,
}

struct DropCounted {
    id: usize,
    payload: i64,
    ledger: Rc<RefCell<Ledger>>,
}

impl Drop for DropCounted {
    fn drop(&mut self) {
        let mut l = self.ledger.borrow_mut();
        let id = self.id;
        if id < l.drops.len() {
            l.drops[id] += 1;
        }
    }
}

fn run_bounded(case: &Case) -> Outcome {
    let mut out = Outcome {
        fail: None,
        reached_full: false,
        failed_push: false,
        underflow_after_bulk: false,
        set_at_height: false,
    };
    let cap = case.cap;
    let ledger = Rc::new(RefCell::new(Ledger { drops: vec![] }));
    let mut st: BoundedStack<DropCounted> = BoundedStack::new(cap);
    // model: (id, payload)
    let mut model: Vec<(usize, i64)> = vec![];
    let mut expected_drops: Vec<u32> = vec![];
    macro_rules! fail {
        ($step:expr, $op:expr, $clause:expr, $($arg:tt)*) => {{
            out.fail = Some(Failure::new(
                $clause,
                &format!("bs:{}:{}", $op, $clause),
                format!("step {} {:?}: {}", $step, case.ops.get($step), format!($($arg)*)),
            ));
            // leak the stack on failure: its content may be inconsistent
            std::mem::forget(st);
            return out;
        }};
    }
    for (step, op) in case.ops.iter().enumerate() {
        match op {
            Op::Push => {
                let id = {
                    let mut l = ledger.borrow_mut();
                    l.drops.push(0);
                    l.drops.len() - 1
                };
                expected_drops.push(0);
                let payload = 5000 + id as i64;
                let r = st.push(DropCounted { id, payload, ledger: ledger.clone() });
                let len = model.len();
                match r {
                    Ok(()) => {
                        if len + 1 > cap {
                            fail!(step, "push", "capacity_exceeded", "push succeeded with len={} cap={}", len, cap);
                        }
                        model.push((id, payload));
                    }
                    Err(_) => {
                        out.failed_push = true;
                        // the rejected value is dropped by push (it was moved in)
                        expected_drops[id] = 1;
                        if len + 1 <= cap {
                            fail!(step, "push", "push_must_succeed", "push failed with len={} cap={}", len, cap);
                        }
                    }
                }
                if model.len() == cap {
                    out.reached_full = true;
                }
            }
            Op::Pop => {
                let expect = model.pop();
                if expect.is_none() {
                    out.underflow_after_bulk = true;
                }
                let got = st.pop();
                match (got, expect) {
                    (None, None) => {}
                    (Some(g), Some(e)) => {
                        if g.id != e.0 || g.payload != e.1 {
                            fail!(step, "pop", "pop_result", "pop returned id {} payload {} expected {:?}", g.id, g.payload, e);
                        }
                        expected_drops[e.0] = 1;
                        drop(g);
                    }
                    (g, e) => {
                        let gi = g.as_ref().map(|g| g.id);
                        std::mem::forget(g);
                        fail!(step, "pop", "pop_result", "pop returned {:?} expected {:?}", gi, e);
                    }
                }
            }
            Op::Last => {
                let got = st.last().map(|g| (g.id, g.payload));
                if got != model.last().copied() {
                    fail!(step, "last", "last_result", "last {:?} expected {:?}", got, model.last());
                }
            }
            Op::LastMutWrite => {
                let got = st.last_mut().map(|g| {
                    g.payload += 100000;
                    g.id
                });
                let exp = model.last_mut().map(|m| {
                    m.1 += 100000;
                    m.0
                });
                if got != exp {
                    fail!(step, "last_mut", "last_result", "last_mut {:?} expected {:?}", got, exp);
                }
            }
            Op::Clear => {
                st.clear();
                for (id, _) in model.drain(..) {
                    expected_drops[id] = 1;
                }
            }
            Op::Iter => {
                let got: Vec<(usize, i64)> = st.iter().map(|g| (g.id, g.payload)).collect();
                if got != model {
                    fail!(step, "iter", "iter_contents", "iter {:?} expected {:?}", got, model);
                }
            }
            Op::IterBackwards => {
                let got: Vec<(usize, i64)> = st.iter_backwards().map(|g| (g.id, g.payload)).collect();
                let mut exp = model.clone();
                exp.reverse();
                if got != exp {
                    fail!(step, "iter_backwards", "iter_contents", "iter_backwards {:?} expected {:?}", got, exp);
                }
            }
            _ => {}
        }
        if st.len() != model.len() || st.is_empty() != model.is_empty() {
            fail!(step, "any", "len", "len {} expected {}", st.len(), model.len());
        }
        if st.capacity() != cap {
            fail!(step, "any", "capacity", "capacity {} expected {}", st.capacity(), cap);
        }
        {
            let l = ledger.borrow();
            if l.drops != expected_drops {
                let bad = l.drops.iter().zip(expected_drops.iter()).position(|(a, b)| a != b);
                let detail = format!("element {:?}: dropped {:?} times, expected {:?}", bad, bad.map(|i| l.drops[i]), bad.map(|i| expected_drops[i]));
                drop(l);
                fail!(step, "any", "drop_exactly_once", "{}", detail);
            }
        }
    }
    // final drop: everything still on the stack is dropped exactly once
    let steps = case.ops.len();
    for (id, _) in model.drain(..) {
        expected_drops[id] = 1;
    }
    drop(st);
    let l = ledger.borrow();
    if l.drops != expected_drops {
        let bad = l.drops.iter().zip(expected_drops.iter()).position(|(a, b)| a != b);
        out.fail = Some(Failure::new(
            "drop_exactly_once",
            "bs:drop:drop_exactly_once",
            format!("after {} steps and drop of the stack: element {:?} dropped {:?} times", steps, bad, bad.map(|i| l.drops[i])),
        ));
    }
    out
}

impl Property for C14 {
    fn id(&self) -> &'static str {
        "C14"
    }
    fn rule(&self) -> &'static str {
        "case = (stack kind, capacity 1..=40, history of <=150 ops decoded from a proptest byte vector); model = Vec + capacity compared after every op (result, len, full contents, drop ledger); set indices are absolute or relative to the current height (at it, one above it, the top), a set at the height must succeed exactly when push on a twin stack with the same contents does and return nil as the old value. non-trivial = the stack reached its maximal fill at least once AND (value stack: a pop hit a stack emptied by pop_n/clear_until | bounded stack: a push was rejected and a pop hit the empty stack); distinct by hash of the decoded history"
    }
    fn assumptions(&self) -> Vec<String> {
        vec![
            "clear_until(h) is only called with h <= len (the precondition all callers respect)".into(),
            "ValueStack::new(0) excluded (documented assert)".into(),
            "push on the value stack with exactly one free slot may succeed or fail (property only demands success with two free slots)".into(),
        ]
    }
    fn max_len(&self) -> usize {
        400
    }
    fn quick_cases(&self) -> u64 {
        3_000_000
    }
    fn describe(&self, bytes: &[u8]) -> J {
        let c = decode(bytes);
        json!({"kind": if c.bounded {"BoundedStack"} else {"ValueStack"}, "capacity": c.cap, "ops": c.ops.iter().map(|o| format!("{:?}", o)).collect::<Vec<_>>()})
    }
    fn run(&self, bytes: &[u8], _tier: Tier) -> CaseOut {
        let case = decode(bytes);
        let fp = fnv64(format!("{:?}", case).as_bytes());
        let o = if case.bounded { run_bounded(&case) } else { run_value_stack(&case) };
        let mut labels = vec![if case.bounded { "bounded".to_string() } else { "value_stack".to_string() }];
        if o.reached_full {
            labels.push("reached_full".into());
        }
        if o.failed_push {
            labels.push("failed_push".into());
        }
        if o.underflow_after_bulk {
            labels.push("underflow_pop".into());
        }
        if o.set_at_height {
            labels.push("set_at_height".into());
        }
        if case.cap <= 3 {
            labels.push("cap<=3".into());
        }
        let nontrivial = o.reached_full && o.underflow_after_bulk && (!case.bounded || o.failed_push);
        CaseOut {
            verdict: match o.fail {
                Some(f) => Verdict::Fail(f),
                None => Verdict::Pass,
            },
            nontrivial,
            labels,
            fingerprint: fp,
            execs: 1,
        }
    }
    fn label_floors(&self) -> Vec<(&'static str, f64)> {
        vec![("reached_full", 0.05), ("underflow_pop", 0.02)]
    }
}
