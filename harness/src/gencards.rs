//! Unconstrained card / module generator: any card kind in any slot, any arities, names from a
//! dictionary mixing valid identifiers with empty, dotted, reserved and non-ASCII ones.
//! Used by C16 (editing API), C04 (compile totality), C10 and C11.

use crate::choice::Choices;
use cao_lang::compiler::{
    CallNode, Card, CardBody, CardId, CompositeCard, DynamicJump, ForEach, Function, Module, Repeat, SetVar, StaticJump,
    UnaryExpression,
};

pub const NAMES: [&str; 31] = [
    "a", "b", "x", "main", "f", "g", "foo", "a.b", "a.b.c", "", "super", "super.f", "super.super.f", "std", "std.min", "m.f", "é",
    "with space", "_", "k9", "f.", ".f",
    // multi-byte text in front of a dot (byte offset != character offset), and names that differ
    // from an ordinary one only by surrounding white space
    "é.x", "日本.x", "pooh🔥.a.b", "é.a.b", " x", "x ", "x\n", "\tx", "a .b",
];

pub struct CardGen {
    pub next_id: u64,
    pub max_depth: u32,
    pub max_width: usize,
}

impl CardGen {
    pub fn new() -> Self {
        // far away from the crate's own process-global id counter (placeholders created by the
        // editing API take ids 1, 2, 3, ...)
        CardGen { next_id: 1 << 40, max_depth: 4, max_width: 4 }
    }

    fn mk(&mut self, body: CardBody) -> Card {
        let id = self.next_id;
        self.next_id += 1;
        Card { id: CardId(id), body }
    }

    pub fn name(&mut self, c: &mut Choices) -> String {
        if c.chance(200) {
            // mostly valid simple names
            c.pick(&["a", "b", "x", "f", "g", "foo", "main", "k9"]).to_string()
        } else {
            c.pick(&NAMES).to_string()
        }
    }

    fn list(&mut self, c: &mut Choices, depth: u32) -> Vec<Card> {
        let n = c.draw(self.max_width + 1);
        (0..n).map(|_| self.card(c, depth + 1)).collect()
    }

    pub fn leaf(&mut self, c: &mut Choices) -> Card {
        let body = match c.draw(11) {
            0 => CardBody::ScalarNil,
            1 => CardBody::ScalarInt(c.range(-3, 9)),
            2 => CardBody::ScalarFloat(*c.pick(&[0.5, 1.0, -2.0, 1e10])),
            3 => CardBody::StringLiteral(c.pick(&["", "a", "key", "é"]).to_string()),
            4 => CardBody::ReadVar(self.name(c)),
            5 => CardBody::Function(self.name(c)),
            6 => CardBody::NativeFunction(self.name(c)),
            7 => CardBody::CreateTable,
            8 => CardBody::Abort,
            9 => CardBody::Comment("c".into()),
            _ => CardBody::ScalarInt(1),
        };
        self.mk(body)
    }

    /// any card kind; children are again arbitrary cards
    pub fn card(&mut self, c: &mut Choices, depth: u32) -> Card {
        if depth >= self.max_depth || c.exhausted() || c.chance(70) {
            return self.leaf(c);
        }
        let d = depth + 1;
        let kind = c.draw(33);
        let body = match kind {
            0 => CardBody::Add(Box::new([self.card(c, d), self.card(c, d)])),
            1 => CardBody::Sub(Box::new([self.card(c, d), self.card(c, d)])),
            2 => CardBody::Mul(Box::new([self.card(c, d), self.card(c, d)])),
            3 => CardBody::Div(Box::new([self.card(c, d), self.card(c, d)])),
            4 => CardBody::Less(Box::new([self.card(c, d), self.card(c, d)])),
            5 => CardBody::LessOrEq(Box::new([self.card(c, d), self.card(c, d)])),
            6 => CardBody::Equals(Box::new([self.card(c, d), self.card(c, d)])),
            7 => CardBody::NotEquals(Box::new([self.card(c, d), self.card(c, d)])),
            8 => CardBody::And(Box::new([self.card(c, d), self.card(c, d)])),
            9 => CardBody::Or(Box::new([self.card(c, d), self.card(c, d)])),
            10 => CardBody::Xor(Box::new([self.card(c, d), self.card(c, d)])),
            11 => CardBody::Not(UnaryExpression::new(self.card(c, d))),
            12 => CardBody::Return(UnaryExpression::new(self.card(c, d))),
            13 => CardBody::Len(UnaryExpression::new(self.card(c, d))),
            14 => CardBody::PopTable(UnaryExpression::new(self.card(c, d))),
            15 => CardBody::SetProperty(Box::new([self.card(c, d), self.card(c, d), self.card(c, d)])),
            16 => CardBody::GetProperty(Box::new([self.card(c, d), self.card(c, d)])),
            17 => CardBody::Get(Box::new([self.card(c, d), self.card(c, d)])),
            18 => CardBody::AppendTable(Box::new([self.card(c, d), self.card(c, d)])),
            19 => CardBody::IfTrue(Box::new([self.card(c, d), self.card(c, d)])),
            20 => CardBody::IfFalse(Box::new([self.card(c, d), self.card(c, d)])),
            21 => CardBody::IfElse(Box::new([self.card(c, d), self.card(c, d), self.card(c, d)])),
            22 => CardBody::While(Box::new([self.card(c, d), self.card(c, d)])),
            23 => {
                let i = if c.bool() { Some(self.name(c)) } else { None };
                CardBody::Repeat(Box::new(Repeat { i, n: self.card(c, d), body: self.card(c, d) }))
            }
            24 => {
                let mut opt = |g: &mut Self, c: &mut Choices| if c.bool() { Some(g.name(c)) } else { None };
                let (i, k, v) = (opt(self, c), opt(self, c), opt(self, c));
                CardBody::ForEach(Box::new(ForEach { i, k, v, iterable: Box::new(self.card(c, d)), body: Box::new(self.card(c, d)) }))
            }
            25 => CardBody::SetVar(Box::new(SetVar { name: self.name(c), value: self.card(c, d) })),
            26 => CardBody::SetGlobalVar(Box::new(SetVar { name: self.name(c), value: self.card(c, d) })),
            27 => CardBody::Call(Box::new(StaticJump { function_name: self.name(c), args: self.list(c, depth).into() })),
            28 => CardBody::CallNative(Box::new(CallNode { name: self.name(c), args: self.list(c, depth).into() })),
            29 => {
                let args = self.list(c, depth);
                CardBody::DynamicCall(Box::new(DynamicJump { function: self.card(c, d), args: args.into() }))
            }
            30 => CardBody::Array(self.list(c, depth)),
            31 => {
                let na = c.draw(3);
                let arguments = (0..na).map(|_| self.name(c)).collect();
                CardBody::Closure(Box::new(Function { arguments, cards: self.list(c, depth) }))
            }
            _ => CardBody::CompositeCard(Box::new(CompositeCard { ty: "t".into(), cards: self.list(c, depth) })),
        };
        self.mk(body)
    }

    pub fn function(&mut self, c: &mut Choices) -> Function {
        let na = c.draw(4);
        let arguments = (0..na).map(|_| self.name(c)).collect();
        let n = c.draw(6);
        Function { arguments, cards: (0..n).map(|_| self.card(c, 0)).collect() }
    }

    /// module with 1..=4 functions (the first is called `main` most of the time) and up to
    /// `sub_depth` levels of submodules
    pub fn module(&mut self, c: &mut Choices, sub_depth: u32) -> Module {
        let nf = 1 + c.draw(4);
        let mut functions = vec![];
        for i in 0..nf {
            let name = if i == 0 && c.chance(230) { "main".to_string() } else { self.name(c) };
            functions.push((name, self.function(c)));
        }
        let mut submodules = vec![];
        if sub_depth > 0 {
            let ns = c.draw(3);
            for _ in 0..ns {
                let name = self.name(c);
                submodules.push((name, self.module(c, sub_depth - 1)));
            }
        }
        let ni = c.draw(3);
        let imports = (0..ni).map(|_| c.pick(&["m.f", "a.b", "std.min", "super.f", "super.super.x", "a", "", "a..b", "super.", "x.main", "std.map"]).to_string()).collect();
        Module { submodules, functions, imports }
    }
}

/// children of a card in the documented order (own table, independent of the crate's
/// iter_children / get_child)
pub fn children_of(card: &Card) -> Vec<&Card> {
    match &card.body {
        CardBody::Add(b)
        | CardBody::Sub(b)
        | CardBody::Mul(b)
        | CardBody::Div(b)
        | CardBody::Less(b)
        | CardBody::LessOrEq(b)
        | CardBody::Equals(b)
        | CardBody::NotEquals(b)
        | CardBody::And(b)
        | CardBody::Or(b)
        | CardBody::Xor(b)
        | CardBody::GetProperty(b)
        | CardBody::Get(b)
        | CardBody::AppendTable(b)
        | CardBody::IfTrue(b)
        | CardBody::IfFalse(b)
        | CardBody::While(b) => b.iter().collect(),
        CardBody::Not(u) | CardBody::Return(u) | CardBody::Len(u) | CardBody::PopTable(u) => vec![u.card.as_ref()],
        CardBody::SetProperty(t) | CardBody::IfElse(t) => t.iter().collect(),
        CardBody::CallNative(n) => n.args.0.iter().collect(),
        CardBody::Call(j) => j.args.0.iter().collect(),
        CardBody::SetGlobalVar(s) | CardBody::SetVar(s) => vec![&s.value],
        CardBody::Repeat(r) => vec![&r.n, &r.body],
        CardBody::ForEach(f) => vec![f.iterable.as_ref(), f.body.as_ref()],
        CardBody::CompositeCard(cc) => cc.cards.iter().collect(),
        CardBody::DynamicCall(j) => std::iter::once(&j.function).chain(j.args.0.iter()).collect(),
        CardBody::Array(a) => a.iter().collect(),
        CardBody::Closure(f) => f.cards.iter().collect(),
        CardBody::ScalarNil
        | CardBody::CreateTable
        | CardBody::Abort
        | CardBody::ScalarInt(_)
        | CardBody::ScalarFloat(_)
        | CardBody::StringLiteral(_)
        | CardBody::Function(_)
        | CardBody::NativeFunction(_)
        | CardBody::ReadVar(_)
        | CardBody::Comment(_) => vec![],
    }
}

#[derive(Debug, Clone, Copy, PartialEq, Eq)]
pub enum ParentKind {
    /// children form a list: insert shifts, remove deletes
    List,
    /// slot 0 is fixed (the function), the rest is a list
    DynCall,
    /// fixed number of slots: insert replaces, remove leaves a placeholder
    Fixed,
    Leaf,
}

pub fn parent_kind(card: &Card) -> ParentKind {
    match &card.body {
        CardBody::CompositeCard(_) | CardBody::Closure(_) | CardBody::Call(_) | CardBody::CallNative(_) | CardBody::Array(_) => ParentKind::List,
        CardBody::DynamicCall(_) => ParentKind::DynCall,
        CardBody::ScalarNil
        | CardBody::CreateTable
        | CardBody::Abort
        | CardBody::ScalarInt(_)
        | CardBody::ScalarFloat(_)
        | CardBody::StringLiteral(_)
        | CardBody::Function(_)
        | CardBody::NativeFunction(_)
        | CardBody::ReadVar(_)
        | CardBody::Comment(_) => ParentKind::Leaf,
        _ => ParentKind::Fixed,
    }
}
