use caoverif::engine::{self, Tier};
use std::path::Path;

fn usage() -> ! {
    eprintln!("usage: check run <ID> <quick|thorough> | check replay <ID> <file> | check list");
    std::process::exit(2)
}

fn main() {
    let args: Vec<String> = std::env::args().collect();
    if args.len() < 2 {
        usage();
    }
    let prop = |id: &str| {
        caoverif::props::by_id(id).unwrap_or_else(|| {
            eprintln!("unknown property {}", id);
            std::process::exit(2)
        })
    };
    let code = match args[1].as_str() {
        "list" => {
            for p in caoverif::props::all() {
                println!("{}", p.id());
            }
            0
        }
        "run" if args.len() >= 4 => engine::parent_main(prop(&args[2]).as_ref(), Tier::parse(&args[3])),
        "worker" if args.len() >= 9 => {
            engine::worker_main(
                prop(&args[2]).as_ref(),
                Tier::parse(&args[3]),
                args[4].parse().unwrap(),
                args[5].parse().unwrap(),
                args[6].parse().unwrap(),
                Path::new(&args[7]),
                Path::new(&args[8]),
            );
            0
        }
        "one" if args.len() >= 5 => engine::one_main(prop(&args[2]).as_ref(), Tier::parse(&args[3]), Path::new(&args[4])),
        "replay" if args.len() >= 4 => engine::replay_main(prop(&args[2]).as_ref(), Path::new(&args[3])),
        _ => usage(),
    };
    std::process::exit(code);
}
