//! Owned model values (no pointers, no VM) used by generators, reference models and observations.

use crate::choice::Choices;
use cao_lang::prelude::*;
use serde_json::{json, Value as J};

#[derive(Debug, Clone)]
pub enum MV {
    Nil,
    Int(i64),
    Real(f64),
    Str(String),
    Table(Vec<(MV, MV)>),
    /// function-like values: (kind tag, id)
    Func(u8, u32),
}

pub const INT_POOL: [i64; 18] = [
    0,
    1,
    -1,
    2,
    3,
    7,
    -7,
    42,
    255,
    256,
    1 << 31,
    (1 << 53) - 1,
    1 << 53,
    (1 << 53) + 1,
    -(1 << 53) - 1,
    i64::MAX,
    i64::MIN,
    i64::MAX - 1,
];

pub const REAL_POOL: [f64; 18] = [
    0.0,
    -0.0,
    1.0,
    -1.0,
    0.5,
    2.0,
    3.0,
    1.5,
    -2.5,
    42.0,
    1e-300,
    5e-324,
    9007199254740992.0,
    9007199254740994.0,
    9.223372036854775807e18,
    -9.223372036854775808e18,
    1e300,
    255.0,
];

pub const STR_POOL: [&str; 12] = ["", "a", "b", "ab", "ba", "abc", "key", "value", "é", "日本", "winnie", "0"];

impl MV {
    pub fn to_json(&self) -> J {
        match self {
            MV::Nil => J::Null,
            MV::Int(i) => json!({ "int": i }),
            MV::Real(r) => json!({"real": format!("{:?}", r)}),
            MV::Str(s) => json!(s),
            MV::Table(t) => J::Array(t.iter().map(|(k, v)| json!([k.to_json(), v.to_json()])).collect()),
            MV::Func(k, i) => json!({"func_kind": k, "id": i}),
        }
    }

    pub fn has_nan(&self) -> bool {
        match self {
            MV::Real(r) => r.is_nan(),
            MV::Table(t) => t.iter().any(|(k, v)| k.has_nan() || v.has_nan()),
            _ => false,
        }
    }
    pub fn has_zero_real(&self) -> bool {
        match self {
            MV::Real(r) => *r == 0.0,
            MV::Table(t) => t.iter().any(|(k, v)| k.has_zero_real() || v.has_zero_real()),
            _ => false,
        }
    }
    pub fn has_func(&self) -> bool {
        match self {
            MV::Func(..) => true,
            MV::Table(t) => t.iter().any(|(k, v)| k.has_func() || v.has_func()),
            _ => false,
        }
    }
    pub fn kind(&self) -> &'static str {
        match self {
            MV::Nil => "nil",
            MV::Int(_) => "int",
            MV::Real(_) => "real",
            MV::Str(_) => "str",
            MV::Table(_) => "table",
            MV::Func(..) => "func",
        }
    }

    /// structural (content) equality as the property states it: same kind, same content;
    /// reals by numeric equality; tables entry by entry in order; functions never equal
    pub fn model_eq(&self, o: &MV) -> bool {
        match (self, o) {
            (MV::Nil, MV::Nil) => true,
            (MV::Int(a), MV::Int(b)) => a == b,
            (MV::Real(a), MV::Real(b)) => a == b,
            (MV::Str(a), MV::Str(b)) => a == b,
            (MV::Table(a), MV::Table(b)) => {
                a.len() == b.len() && a.iter().zip(b.iter()).all(|((ka, va), (kb, vb))| ka.model_eq(kb) && va.model_eq(vb))
            }
            _ => false,
        }
    }

    /// same multiset of entries but (possibly) another order
    pub fn same_entries_any_order(&self, o: &MV) -> bool {
        match (self, o) {
            (MV::Table(a), MV::Table(b)) => {
                a.len() == b.len() && a.iter().all(|(ka, va)| b.iter().any(|(kb, vb)| ka.model_eq(kb) && va.model_eq(vb)))
            }
            _ => false,
        }
    }

    pub fn len(&self) -> usize {
        match self {
            MV::Str(s) => s.len(),
            MV::Table(t) => t.len(),
            _ => 0,
        }
    }

    pub fn truthy(&self) -> bool {
        match self {
            MV::Nil => false,
            MV::Int(i) => *i != 0,
            MV::Real(r) => *r != 0.0,
            MV::Str(s) => !s.is_empty(),
            MV::Table(t) => !t.is_empty(),
            MV::Func(..) => true,
        }
    }

    /// convert a VM value into the model (tables in iteration order); function-like objects
    /// become Func(kind, 0)
    pub fn from_value(v: Value) -> MV {
        Self::from_value_d(v, 0)
    }

    /// tables nested deeper than 6 levels are cut with the marker "<deep>" (the reference
    /// interpreter's conversion cuts at the same depth), which also bounds cyclic tables
    fn from_value_d(v: Value, depth: u32) -> MV {
        if depth > 6 {
            if let Value::Object(o) = v {
                if unsafe { o.as_ref().as_table().is_some() } {
                    return MV::Str("<deep>".into());
                }
            }
        }
        match v {
            Value::Nil => MV::Nil,
            Value::Integer(i) => MV::Int(i),
            Value::Real(r) => MV::Real(r),
            Value::Object(o) => unsafe {
                let o = o.as_ref();
                if let Some(s) = o.as_str() {
                    MV::Str(s.to_string())
                } else if let Some(t) = o.as_table() {
                    MV::Table(t.iter().map(|(k, v)| (MV::from_value_d(*k, depth + 1), MV::from_value_d(*v, depth + 1))).collect())
                } else {
                    let kind = match o.type_name() {
                        "Function" => 1,
                        "NativeFunction" => 2,
                        "Closure" => 3,
                        _ => 9,
                    };
                    MV::Func(kind, 0)
                }
            },
        }
    }

    /// exact comparison used by observations (reals by bits, NaN == NaN)
    pub fn obs_eq(&self, o: &MV) -> bool {
        match (self, o) {
            (MV::Nil, MV::Nil) => true,
            (MV::Int(a), MV::Int(b)) => a == b,
            (MV::Real(a), MV::Real(b)) => a.to_bits() == b.to_bits() || (a.is_nan() && b.is_nan()),
            (MV::Str(a), MV::Str(b)) => a == b,
            (MV::Table(a), MV::Table(b)) => {
                a.len() == b.len() && a.iter().zip(b.iter()).all(|((ka, va), (kb, vb))| ka.obs_eq(kb) && va.obs_eq(vb))
            }
            (MV::Func(a, _), MV::Func(b, _)) => a == b,
            _ => false,
        }
    }
}

/// materialise a model value inside a VM (strings and tables are fresh objects every time)
pub fn materialize<A>(vm: &mut Vm<A>, v: &MV) -> Result<Value, ExecutionErrorPayload> {
    Ok(match v {
        MV::Nil => Value::Nil,
        MV::Int(i) => Value::Integer(*i),
        MV::Real(r) => Value::Real(*r),
        MV::Str(s) => {
            let g = vm.init_string(s)?;
            Value::Object(g.into_inner())
        }
        MV::Table(entries) => {
            let mut g = vm.init_table()?;
            for (k, val) in entries {
                let k = materialize(vm, k)?;
                let val = materialize(vm, val)?;
                g.as_table_mut().unwrap().insert(k, val)?;
            }
            Value::Object(g.into_inner())
        }
        MV::Func(kind, id) => {
            let h = Handle::from_u32(*id + 1);
            let g = match kind {
                1 => vm.init_function(h, *id % 3)?,
                2 => vm.init_native_function(h)?,
                _ => vm.init_closure(h, *id % 3)?,
            };
            Value::Object(g.into_inner())
        }
    })
}

pub struct ValGen {
    pub allow_nan: bool,
    pub allow_func: bool,
    pub max_depth: u32,
    pub max_entries: usize,
}

impl Default for ValGen {
    fn default() -> Self {
        ValGen { allow_nan: false, allow_func: false, max_depth: 3, max_entries: 5 }
    }
}

impl ValGen {
    pub fn scalar(&self, c: &mut Choices) -> MV {
        match c.weighted(&[2, 6, 5, 5]) {
            0 => MV::Nil,
            1 => {
                if c.chance(160) {
                    MV::Int(*c.pick(&INT_POOL))
                } else {
                    MV::Int(c.range(-20, 20))
                }
            }
            2 => {
                if self.allow_nan && c.chance(20) {
                    MV::Real(*c.pick(&[f64::NAN, f64::INFINITY, f64::NEG_INFINITY]))
                } else if c.chance(160) {
                    MV::Real(*c.pick(&REAL_POOL))
                } else {
                    MV::Real(c.range(-40, 40) as f64 / 4.0)
                }
            }
            _ => MV::Str(c.pick(&STR_POOL).to_string()),
        }
    }

    pub fn gen(&self, c: &mut Choices, depth: u32) -> MV {
        let table_w = if depth < self.max_depth { 4 } else { 0 };
        let func_w = if self.allow_func { 1 } else { 0 };
        match c.weighted(&[12, table_w, func_w]) {
            0 => self.scalar(c),
            1 => {
                let n = c.draw(self.max_entries + 1);
                let mut entries: Vec<(MV, MV)> = vec![];
                for _ in 0..n {
                    // keys: scalars mostly, sometimes nested
                    // (a function value never equals anything, not even itself: as a key, or anywhere
                    // inside a table used as a key, it makes an entry that can not be found again,
                    // which is outside what the properties define - no function values in keys)
                    let key_gen = ValGen { allow_nan: self.allow_nan, allow_func: false, max_depth: self.max_depth, max_entries: self.max_entries };
                    let k = if c.chance(24) { key_gen.gen(c, depth + 1) } else { self.scalar(c) };
                    if k.has_nan() {
                        continue;
                    }
                    let v = self.gen(c, depth + 1);
                    // keep keys distinct under model equality (and avoid signed-zero aliasing)
                    if entries.iter().any(|(ek, _)| ek.model_eq(&k)) {
                        continue;
                    }
                    entries.push((k, v));
                }
                MV::Table(entries)
            }
            _ => MV::Func(1 + c.draw(3) as u8, c.draw(4) as u32),
        }
    }
}
