//! Independent bytecode decoder / well-formedness checker (C10).
//! Own opcode numbering and operand-width table, written from the instruction documentation and
//! the interpreter's decode calls; cross-checked at start-up against the crate's table (hook H1).

use cao_lang::collections::handle_table::Handle;
use cao_lang::prelude::CaoCompiledProgram;
use std::collections::{BTreeMap, BTreeSet};
use std::str::FromStr;

/// (opcode, name, operand bytes)
pub const TABLE: [(u8, &str, usize); 47] = [
    (0, "Add", 0),
    (1, "Sub", 0),
    (2, "Mul", 0),
    (3, "Div", 0),
    (4, "CallNative", 4),
    (5, "ScalarInt", 8),
    (6, "ScalarFloat", 8),
    (7, "ScalarNil", 0),
    (8, "StringLiteral", 4),
    (9, "CopyLast", 0),
    (10, "Exit", 0),
    (11, "CallFunction", 0),
    (12, "Equals", 0),
    (13, "NotEquals", 0),
    (14, "Less", 0),
    (15, "LessOrEq", 0),
    (16, "Pop", 0),
    (17, "SetGlobalVar", 4),
    (18, "ReadGlobalVar", 4),
    (19, "SetLocalVar", 4),
    (20, "ReadLocalVar", 4),
    (21, "ClearStack", 0),
    (22, "Return", 0),
    (23, "SwapLast", 0),
    (24, "And", 0),
    (25, "Or", 0),
    (26, "Xor", 0),
    (27, "Not", 0),
    (28, "Goto", 4),
    (29, "GotoIfTrue", 4),
    (30, "GotoIfFalse", 4),
    (31, "InitTable", 0),
    (32, "GetProperty", 0),
    (33, "SetProperty", 0),
    (34, "Len", 0),
    (35, "BeginForEach", 20),
    (36, "ForEach", 20),
    (37, "FunctionPointer", 8),
    (38, "NativeFunctionPointer", 4),
    (39, "NthRow", 0),
    (40, "AppendTable", 0),
    (41, "PopTable", 0),
    (42, "Closure", 8),
    (43, "SetUpvalue", 4),
    (44, "ReadUpvalue", 4),
    (45, "RegisterUpvalue", 2),
    (46, "CloseUpvalue", 0),
];

/// disagreement between my table and the crate's is itself the operand-width mismatch the
/// property worries about
pub fn cross_check_table() -> Result<(), String> {
    let theirs = cao_lang::verif::instruction_table();
    if theirs.len() != TABLE.len() {
        return Err(format!("crate has {} instructions, the verifier knows {}", theirs.len(), TABLE.len()));
    }
    for ((op, name, span), (mop, mname, mwidth)) in theirs.iter().zip(TABLE.iter()) {
        if op != mop || name != mname || *span != 1 + mwidth {
            return Err(format!("instruction table mismatch: crate ({}, {}, span {}) vs verifier ({}, {}, span {})", op, name, span, mop, mname, 1 + mwidth));
        }
    }
    Ok(())
}

#[derive(Debug, Clone)]
pub struct Instr {
    pub pos: usize,
    pub op: u8,
    pub name: &'static str,
    pub operands: Vec<u8>,
}

impl Instr {
    fn u32_at(&self, i: usize) -> u32 {
        u32::from_le_bytes(self.operands[i..i + 4].try_into().unwrap())
    }
    fn i32_at(&self, i: usize) -> i32 {
        i32::from_le_bytes(self.operands[i..i + 4].try_into().unwrap())
    }
}

pub fn decode(bytecode: &[u8]) -> Result<Vec<Instr>, (String, String)> {
    let mut out = vec![];
    let mut pos = 0;
    while pos < bytecode.len() {
        let op = bytecode[pos];
        let Some((_, name, width)) = TABLE.iter().find(|(o, _, _)| *o == op) else {
            return Err(("known_opcode".into(), format!("unknown opcode {} at {}", op, pos)));
        };
        if pos + 1 + width > bytecode.len() {
            return Err(("complete_operands".into(), format!("{} at {} needs {} operand bytes, {} left", name, pos, width, bytecode.len() - pos - 1)));
        }
        out.push(Instr { pos, op, name, operands: bytecode[pos + 1..pos + 1 + width].to_vec() });
        pos += 1 + width;
    }
    Ok(out)
}

#[derive(Default, Debug)]
pub struct Features {
    pub jumps: usize,
    pub closures: usize,
    pub foreach: usize,
    pub strings: usize,
    pub function_pointers: usize,
    pub labels: usize,
    pub data_len: usize,
    pub opcodes: BTreeSet<&'static str>,
    pub long_strings: usize,
}

fn decode_string(data: &[u8], off: usize) -> Result<(usize, &str), String> {
    // the encoding of a string is the crate's business (hook: its own decoder, the one the VM
    // uses): what is checked is that a complete UTF-8 string can be read at the offset
    if off > data.len() {
        return Err(format!("string offset {} is beyond the data section ({} bytes)", off, data.len()));
    }
    return match (cao_lang::verif::decode_str(&data[off..]), cao_lang::verif::read_str(off, data)) {
        // ... and that the interpreter's own reader of string operands gets the same text
        (Some((_, s)), Some(r)) if s == r => Ok((s.len(), s)),
        (Some((_, s)), r) => Err(format!("the string of {} bytes at offset {} is not what the interpreter reads there ({:?})", s.len(), off, r.map(|x| x.len()))),
        (None, _) => Err(format!("no complete UTF-8 string can be decoded at offset {} (data is {} bytes)", off, data.len())),
    };
    #[allow(unreachable_code)]
    if off + 4 > data.len() {
        return Err(format!("string offset {} leaves no room for the length prefix (data is {} bytes)", off, data.len()));
    }
    let len = u32::from_le_bytes(data[off..off + 4].try_into().unwrap()) as usize;
    if off + 4 + len > data.len() {
        return Err(format!("string at {} claims {} bytes, data ends after {}", off, len, data.len() - off - 4));
    }
    let s = std::str::from_utf8(&data[off + 4..off + 4 + len]).map_err(|e| format!("string at {} is not UTF-8: {}", off, e))?;
    Ok((len, s))
}

/// returns (clause, detail) of the first violated condition
pub fn verify(p: &CaoCompiledProgram, feats: &mut Features) -> Result<(), (String, String)> {
    let code = &p.bytecode;
    let instrs = decode(code)?;
    let starts: BTreeSet<usize> = instrs.iter().map(|i| i.pos).collect();
    feats.data_len = p.data.len();
    let err = |c: &str, d: String| Err((c.to_string(), d));
    match instrs.last() {
        Some(i) if i.name == "Exit" => {}
        other => return err("ends_with_exit", format!("last instruction is {:?}", other.map(|i| i.name))),
    }
    // labels
    let mut label_pos: BTreeMap<u32, usize> = BTreeMap::new();
    for (h, l) in p.labels.0.iter() {
        feats.labels += 1;
        if !starts.contains(&(l.pos as usize)) {
            return err("label_on_instruction_start", format!("label {:#x} points to {} which is not an instruction start", h.value(), l.pos));
        }
        label_pos.insert(h.value(), l.pos as usize);
    }
    // closure regions: (body start, position of the Closure instruction, number of upvalues)
    let mut regions: Vec<(usize, usize, usize)> = vec![];
    let mut fp_arity: BTreeMap<u32, u32> = BTreeMap::new();
    for (n, i) in instrs.iter().enumerate() {
        feats.opcodes.insert(i.name);
        match i.name {
            "Goto" | "GotoIfTrue" | "GotoIfFalse" => {
                feats.jumps += 1;
                let t = i.i32_at(0);
                if t < 0 || !starts.contains(&(t as usize)) {
                    return err("jump_on_instruction_start", format!("{} at {} jumps to {} which is not an instruction start", i.name, i.pos, t));
                }
                if i.name != "Goto" || (t as usize) > i.pos {
                    // forward (conditional / skip) jumps must not land inside their own operands etc. — covered by `starts`
                }
            }
            "FunctionPointer" | "Closure" => {
                let h = i.u32_at(0);
                let arity = i.u32_at(4);
                if i.name == "Closure" {
                    feats.closures += 1;
                } else {
                    feats.function_pointers += 1;
                }
                let Some(body) = label_pos.get(&h) else {
                    return err("function_label_exists", format!("{} at {} refers to handle {:#x} which has no label", i.name, i.pos, h));
                };
                if let Some(prev) = fp_arity.insert(h, arity) {
                    if prev != arity {
                        return err("function_arity_consistent", format!("handle {:#x} is used with arity {} and {}", h, prev, arity));
                    }
                }
                if i.name == "Closure" {
                    let mut nup = 0;
                    let mut k = n + 1;
                    while k + 1 < instrs.len() && instrs[k].name == "CopyLast" && instrs[k + 1].name == "RegisterUpvalue" {
                        nup += 1;
                        k += 2;
                    }
                    if *body >= i.pos {
                        return err("closure_body_before_closure", format!("closure at {} has its body at {}", i.pos, body));
                    }
                    regions.push((*body, i.pos, nup));
                }
            }
            "RegisterUpvalue" => {
                let ok = n >= 2 && instrs[n - 1].name == "CopyLast" && (instrs[n - 2].name == "Closure" || instrs[n - 2].name == "RegisterUpvalue");
                if !ok {
                    return err("register_upvalue_follows_closure", format!("RegisterUpvalue at {} does not follow Closure/CopyLast", i.pos));
                }
            }
            "StringLiteral" | "NativeFunctionPointer" => {
                feats.strings += 1;
                let off = i.u32_at(0) as usize;
                match decode_string(&p.data, off) {
                    Ok((len, _)) => {
                        if 4 + len > 256 {
                            feats.long_strings += 1;
                        }
                    }
                    Err(e) => return err("string_complete_utf8", format!("{} at {}: {}", i.name, i.pos, e)),
                }
            }
            "SetLocalVar" | "ReadLocalVar" => {
                if i.u32_at(0) >= 255 {
                    return err("local_index_in_range", format!("{} at {} uses local {}", i.name, i.pos, i.u32_at(0)));
                }
            }
            "BeginForEach" | "ForEach" => {
                feats.foreach += 1;
                let idx: Vec<u32> = (0..5).map(|k| i.u32_at(k * 4)).collect();
                let set: BTreeSet<u32> = idx.iter().copied().collect();
                if set.len() != 5 || idx.iter().any(|x| *x >= 255) {
                    return err("foreach_locals_distinct", format!("{} at {} uses locals {:?}", i.name, i.pos, idx));
                }
            }
            "SetGlobalVar" | "ReadGlobalVar" => {
                let id = i.u32_at(0) as usize;
                if id >= p.variables.ids.len() {
                    return err("global_id_declared", format!("{} at {} uses global id {} of {}", i.name, i.pos, id, p.variables.ids.len()));
                }
            }
            _ => {}
        }
    }
    // upvalue indices against the innermost enclosing closure region
    for i in instrs.iter().filter(|i| i.name == "SetUpvalue" || i.name == "ReadUpvalue") {
        let inner = regions.iter().filter(|(b, e, _)| *b <= i.pos && i.pos < *e).min_by_key(|(b, e, _)| e - b);
        match inner {
            None => return err("upvalue_inside_closure", format!("{} at {} is not inside any closure body", i.name, i.pos)),
            Some((_, _, nup)) => {
                if i.u32_at(0) as usize >= *nup {
                    return err("upvalue_index_in_range", format!("{} at {} uses upvalue {} of {}", i.name, i.pos, i.u32_at(0), nup));
                }
            }
        }
    }
    // global ids and names correspond one to one
    let mut seen_ids = BTreeSet::new();
    for (_, id) in p.variables.ids.iter() {
        let id: u32 = bytemuck::cast(*id);
        if !seen_ids.insert(id) {
            return err("global_ids_bijective", format!("global id {} assigned to two names", id));
        }
        match p.variables.names.get(Handle::from_u32(id)) {
            None => return err("global_ids_bijective", format!("global id {} has no name", id)),
            Some(name) => {
                let back = p.variables.ids.get(Handle::from_str(name).unwrap()).map(|v| bytemuck::cast::<_, u32>(*v));
                if back != Some(id) {
                    return err("global_ids_bijective", format!("name {:?} of id {} maps back to {:?}", name, id, back));
                }
            }
        }
    }
    if p.variables.names.len() != p.variables.ids.len() {
        return err("global_ids_bijective", format!("{} ids but {} names", p.variables.ids.len(), p.variables.names.len()));
    }
    // traces
    for (pos, _) in p.trace.iter() {
        if !starts.contains(&(*pos as usize)) {
            return err("trace_on_instruction_start", format!("trace entry at {} is not an instruction start", pos));
        }
    }
    for i in &instrs {
        let cannot_fail = matches!(i.name, "Pop" | "CloseUpvalue" | "Exit" | "Goto" | "GotoIfTrue" | "GotoIfFalse");
        if !cannot_fail && p.trace.get(&(i.pos as u32)).is_none() {
            return err("failing_instruction_has_trace", format!("{} at {} has no trace entry", i.name, i.pos));
        }
    }
    // the crate's own walk over the same bytes
    let dis = p.disassemble_string();
    let lines: Vec<&str> = dis.lines().collect();
    if lines.len() != instrs.len() {
        return err("disassembler_agrees", format!("disassembler prints {} lines for {} instructions", lines.len(), instrs.len()));
    }
    for (l, i) in lines.iter().zip(instrs.iter()) {
        let mut parts = l.split('\t');
        let off: Option<usize> = parts.next().and_then(|x| x.parse().ok());
        let name = parts.next().unwrap_or("");
        if off != Some(i.pos) || name != i.name {
            return err("disassembler_agrees", format!("disassembler line {:?} vs instruction {} at {}", l, i.name, i.pos));
        }
    }
    Ok(())
}
