//! Reference semantics of the card language: a direct AST interpreter over the IR.
//! Lexically scoped locals per activation, by-reference captured cells for closures, shared
//! tables, a globals map, the reversed parameter-binding convention. Shares no code and no
//! representation with cao-lang (no stack, no slots, no handles, no bytecode).

use crate::ir::*;
use crate::mval::MV;
use std::cell::RefCell;
use std::collections::{BTreeMap, BTreeSet};
use std::rc::Rc;

#[derive(Clone)]
pub enum RV {
    Nil,
    Int(i64),
    Real(f64),
    Str(Rc<str>),
    Table(Rc<RefCell<Vec<(RV, RV)>>>),
    Func(usize),
    Native(Rc<str>),
    Closure(Rc<RClosure>),
}

pub struct RClosure {
    pub def: Rc<ClosureDef>,
    captured: Rc<Vec<(String, Cell)>>,
}

type Cell = Rc<RefCell<RV>>;

thread_local! {
    /// set when a comparison went deeper than any acyclic generated value can be
    static DEEP: std::cell::Cell<bool> = std::cell::Cell::new(false);
    static CMP_DEPTH: std::cell::Cell<u32> = std::cell::Cell::new(0);
}

impl std::fmt::Debug for RV {
    fn fmt(&self, f: &mut std::fmt::Formatter<'_>) -> std::fmt::Result {
        write!(f, "{}", self.to_mv().to_json())
    }
}

impl RV {
    pub fn str(s: &str) -> RV {
        RV::Str(Rc::from(s))
    }
    pub fn new_table() -> RV {
        RV::Table(Rc::new(RefCell::new(vec![])))
    }
    fn is_real(&self) -> bool {
        matches!(self, RV::Real(_))
    }
    fn is_int(&self) -> bool {
        matches!(self, RV::Int(_))
    }
    pub fn len(&self) -> usize {
        match self {
            RV::Str(s) => s.len(),
            RV::Table(t) => t.borrow().len(),
            _ => 0,
        }
    }
    pub fn truthy(&self) -> bool {
        match self {
            RV::Nil => false,
            RV::Int(i) => *i != 0,
            RV::Real(r) => *r != 0.0,
            RV::Str(s) => !s.is_empty(),
            RV::Table(t) => !t.borrow().is_empty(),
            RV::Func(_) | RV::Native(_) | RV::Closure(_) => true,
        }
    }
    fn to_f64(&self) -> f64 {
        match self {
            RV::Real(r) => *r,
            RV::Int(i) => *i as f64,
            RV::Nil => 0.0,
            other => other.len() as f64,
        }
    }
    fn to_i64(&self) -> i64 {
        match self {
            RV::Int(i) => *i,
            RV::Real(r) => *r as i64,
            RV::Nil => 0,
            other => other.len() as i64,
        }
    }
    /// `==` of the language: no coercion, strings and tables by content, functions never equal
    pub fn eq(&self, o: &RV) -> bool {
        let d = CMP_DEPTH.with(|c| c.get());
        if d > 12 {
            DEEP.with(|x| x.set(true));
            return false;
        }
        CMP_DEPTH.with(|c| c.set(d + 1));
        let r = self.eq_inner(o);
        CMP_DEPTH.with(|c| c.set(d));
        r
    }
    fn eq_inner(&self, o: &RV) -> bool {
        match (self, o) {
            (RV::Nil, RV::Nil) => true,
            (RV::Int(a), RV::Int(b)) => a == b,
            (RV::Real(a), RV::Real(b)) => a == b,
            (RV::Str(a), RV::Str(b)) => a == b,
            (RV::Table(a), RV::Table(b)) => {
                if Rc::ptr_eq(a, b) {
                    // same object: equal entry by entry unless it contains NaN / functions
                    let t = a.borrow();
                    return t.iter().all(|(k, v)| k.eq(k) && v.eq(v));
                }
                let (a, b) = (a.borrow(), b.borrow());
                a.len() == b.len() && a.iter().zip(b.iter()).all(|((ka, va), (kb, vb))| ka.eq(kb) && va.eq(vb))
            }
            _ => false,
        }
    }
    fn is_object(&self) -> bool {
        !matches!(self, RV::Nil | RV::Int(_) | RV::Real(_))
    }
    /// ordering of the language (None = incomparable)
    pub fn cmp(&self, o: &RV) -> Option<std::cmp::Ordering> {
        if self.is_real() || o.is_real() {
            return self.to_f64().partial_cmp(&o.to_f64());
        }
        if self.is_int() || o.is_int() {
            return self.to_i64().partial_cmp(&o.to_i64());
        }
        if self.is_object() && o.is_object() {
            if self.eq(o) {
                return Some(std::cmp::Ordering::Equal);
            }
            let r = self.len().cmp(&o.len());
            return if r == std::cmp::Ordering::Equal { None } else { Some(r) };
        }
        None
    }
    pub fn to_mv(&self) -> MV {
        match self {
            RV::Nil => MV::Nil,
            RV::Int(i) => MV::Int(*i),
            RV::Real(r) => MV::Real(*r),
            RV::Str(s) => MV::Str(s.to_string()),
            RV::Table(t) => {
                // tables may be cyclic; cut at a fixed depth
                fn go(t: &Rc<RefCell<Vec<(RV, RV)>>>, depth: u32) -> MV {
                    if depth > 6 {
                        return MV::Str("<deep>".into());
                    }
                    MV::Table(
                        t.borrow()
                            .iter()
                            .map(|(k, v)| {
                                let f = |x: &RV| match x {
                                    RV::Table(t) => go(t, depth + 1),
                                    other => other.to_mv(),
                                };
                                (f(k), f(v))
                            })
                            .collect(),
                    )
                }
                go(t, 0)
            }
            RV::Func(_) => MV::Func(1, 0),
            RV::Native(_) => MV::Func(2, 0),
            RV::Closure(_) => MV::Func(3, 0),
        }
    }
}

#[derive(Debug, Clone, PartialEq, Eq)]
pub enum ErrKind {
    InvalidArgument,
    ProcedureNotFound,
    BadReturn,
    VarNotFound,
    TaskFailure(String, Box<ErrKind>),
    /// the case leaves the defined semantics: discard with this reason
    Undefined(&'static str),
    /// internal: an Abort card terminates the whole program successfully
    AbortSignal,
}

impl ErrKind {
    pub fn name(&self) -> String {
        match self {
            ErrKind::InvalidArgument => "InvalidArgument".into(),
            ErrKind::ProcedureNotFound => "ProcedureNotFound".into(),
            ErrKind::BadReturn => "BadReturn".into(),
            ErrKind::VarNotFound => "VarNotFound".into(),
            ErrKind::TaskFailure(n, inner) => format!("TaskFailure({}:{})", n, inner.name()),
            ErrKind::Undefined(w) => format!("Undefined({})", w),
            ErrKind::AbortSignal => "AbortSignal".into(),
        }
    }
}

enum Flow {
    Normal,
    Return(RV),
    Abort,
}

struct Activation {
    scopes: Vec<Vec<(String, Cell)>>,
    captured: Option<Rc<Vec<(String, Cell)>>>,
    is_main: bool,
    /// values the VM would hold below this activation's frame (0 => stack_offset == 0)
    below: usize,
    /// statement-level values this activation has left behind so far
    junk: u64,
    /// loop-body scopes that are open: (index into scopes, junk at entry, a closure captured one of its variables)
    loop_scopes: Vec<(usize, u64, bool)>,
}

#[derive(Default, Debug, Clone)]
pub struct RefStats {
    pub calls: u64,
    pub calls_offset_gt0: u64,
    pub loop_iterations: u64,
    pub loop_iterations_with_local: u64,
    pub returns_in_loop: u64,
    pub dyn_calls: u64,
    pub closure_calls: u64,
    pub closures_created: u64,
    pub closures_created_offset_gt0: u64,
    pub closures_created_in_loop: u64,
    pub captured_reads: u64,
    pub captured_writes: u64,
    pub capture_after_write: u64,
    pub native_reentries: u64,
    pub max_depth: u64,
    pub expr_stmts: u64,
    pub array_junk: u64,
    pub table_ops: u64,
    pub mixed_numeric: u64,
    pub steps: u64,
}

pub struct RefOut {
    pub outcome: Result<(), ErrKind>,
    pub globals: BTreeMap<String, MV>,
    pub log: Vec<(String, Vec<MV>)>,
    pub tags: BTreeSet<String>,
    pub stats: RefStats,
}

pub struct Interp<'p> {
    prog: &'p Program,
    globals: BTreeMap<String, RV>,
    log: Vec<(String, Vec<MV>)>,
    tags: BTreeSet<String>,
    stats: RefStats,
    fuel: u64,
    depth: u64,
    loop_depth: u64,
    /// cells written at least once after creation (for the C06 non-triviality rule)
    written_cells: BTreeSet<usize>,
}

type R<T> = Result<T, ErrKind>;

pub fn run_reference(prog: &Program, fuel: u64) -> RefOut {
    DEEP.with(|d| d.set(false));
    CMP_DEPTH.with(|d| d.set(0));
    let mut it = Interp {
        prog,
        globals: BTreeMap::new(),
        log: vec![],
        tags: BTreeSet::new(),
        stats: RefStats::default(),
        fuel,
        depth: 0,
        loop_depth: 0,
        written_cells: BTreeSet::new(),
    };
    let outcome = match prog.main_id() {
        None => Err(ErrKind::Undefined("no_main")),
        Some(m) => match it.call_function(m, vec![], true, 0) {
            Ok(_) | Err(ErrKind::AbortSignal) => Ok(()),
            Err(e) => Err(e),
        },
    };
    let outcome = if DEEP.with(|d| d.get()) { Err(ErrKind::Undefined("deep_or_cyclic_compare")) } else { outcome };
    let mut globals = BTreeMap::new();
    for g in &prog.globals {
        globals.insert(g.clone(), it.globals.get(g).map(|v| v.to_mv()).unwrap_or(MV::Nil));
    }
    RefOut { outcome, globals, log: it.log, tags: it.tags, stats: it.stats }
}

impl<'p> Interp<'p> {
    fn tick(&mut self) -> R<()> {
        self.stats.steps += 1;
        if self.fuel == 0 {
            return Err(ErrKind::Undefined("fuel"));
        }
        self.fuel -= 1;
        Ok(())
    }

    fn call_function(&mut self, fid: usize, args: Vec<RV>, is_main: bool, below: usize) -> R<RV> {
        if fid >= STD_BASE {
            return self.call_std(fid - STD_BASE, args, below);
        }
        let f = &self.prog.funcs[fid];
        if args.len() != f.params.len() {
            return Err(ErrKind::Undefined("arity_mismatch"));
        }
        let mut act = Activation { scopes: vec![vec![]], captured: None, is_main, below, junk: 0, loop_scopes: vec![] };
        self.bind_params(&mut act, &f.params, args);
        self.run_body(&mut act, &f.body)
    }

    fn call_closure(&mut self, c: &Rc<RClosure>, args: Vec<RV>, below: usize) -> R<RV> {
        if args.len() != c.def.params.len() {
            return Err(ErrKind::Undefined("arity_mismatch"));
        }
        self.stats.closure_calls += 1;
        let mut act = Activation { scopes: vec![vec![]], captured: Some(c.captured.clone()), is_main: false, below, junk: 0, loop_scopes: vec![] };
        self.bind_params(&mut act, &c.def.params, args);
        let body = c.def.body.clone();
        self.run_body(&mut act, &body)
    }

    /// the language's convention: the first supplied argument binds to the LAST declared parameter
    fn bind_params(&mut self, act: &mut Activation, params: &[String], args: Vec<RV>) {
        let n = params.len();
        for (i, a) in args.into_iter().enumerate() {
            let name = params[n - 1 - i].clone();
            act.scopes[0].push((name, Rc::new(RefCell::new(a))));
        }
    }

    fn run_body(&mut self, act: &mut Activation, body: &[Stmt]) -> R<RV> {
        self.depth += 1;
        self.stats.max_depth = self.stats.max_depth.max(self.depth);
        self.stats.calls += 1;
        if act.below > 0 {
            self.stats.calls_offset_gt0 += 1;
        }
        if self.depth > 40 {
            self.depth -= 1;
            return Err(ErrKind::Undefined("deep_recursion"));
        }
        let saved_loop = std::mem::replace(&mut self.loop_depth, 0);
        let mut result = Ok(RV::Nil);
        // the function-level scope is closed by the same scope-end instructions as a loop body
        // when control falls off the end of the body (an explicit Return closes by frame)
        act.loop_scopes.push((0, act.junk, false));
        let mut fell_through = true;
        for s in body {
            match self.exec(act, s) {
                Ok(Flow::Normal) => {}
                Ok(Flow::Return(v)) => {
                    fell_through = false;
                    result = if act.is_main { Err(ErrKind::BadReturn) } else { Ok(v) };
                    break;
                }
                Ok(Flow::Abort) => {
                    result = Err(ErrKind::AbortSignal);
                    break;
                }
                Err(e) => {
                    fell_through = false;
                    result = Err(e);
                    break;
                }
            }
        }
        if fell_through && !act.is_main {
            // keep only the function-level marker (inner ones were popped by their loops)
            act.loop_scopes.truncate(1);
            self.leave_loop_scope(act);
        }
        self.loop_depth = saved_loop;
        self.depth -= 1;
        result
    }

    fn lookup(&self, act: &Activation, name: &str) -> Option<(Cell, bool)> {
        for scope in act.scopes.iter().rev() {
            for (n, c) in scope.iter().rev() {
                if n == name {
                    return Some((c.clone(), false));
                }
            }
        }
        if let Some(cap) = &act.captured {
            for (n, c) in cap.iter() {
                if n == name {
                    return Some((c.clone(), true));
                }
            }
        }
        None
    }

    fn live_values(&self, act: &Activation) -> usize {
        act.scopes.iter().map(|s| s.len()).sum::<usize>()
    }

    fn declare(&mut self, act: &mut Activation, name: &str, v: RV) {
        act.scopes.last_mut().unwrap().push((name.to_string(), Rc::new(RefCell::new(v))));
    }

    fn read_base(&mut self, act: &Activation, base: &str) -> R<RV> {
        match self.lookup(act, base) {
            Some((c, captured)) => {
                if captured {
                    self.stats.captured_reads += 1;
                    if self.written_cells.contains(&(Rc::as_ptr(&c) as usize)) {
                        self.stats.capture_after_write += 1;
                    }
                }
                let v = c.borrow().clone();
                Ok(v)
            }
            None => match self.globals.get(base) {
                Some(v) => Ok(v.clone()),
                // the VM answers nil or VarNotFound depending on the id order: not defined
                None => Err(ErrKind::Undefined("read_unset_global")),
            },
        }
    }

    fn read_var(&mut self, act: &Activation, name: &str) -> R<RV> {
        let mut parts = name.split('.');
        let base = parts.next().unwrap_or("");
        let mut v = self.read_base(act, base)?;
        for prop in parts.filter(|p| !p.is_empty()) {
            v = self.table_get(&v, &RV::str(prop))?;
        }
        Ok(v)
    }

    fn key_ok(&mut self, k: &RV) -> R<()> {
        match k {
            // the property defines tables for integer, real, string and nil keys
            RV::Func(_) | RV::Native(_) | RV::Closure(_) => Err(ErrKind::Undefined("function_key")),
            RV::Real(r) if r.is_nan() => Err(ErrKind::Undefined("nan_key")),
            RV::Real(r) if *r == 0.0 => Err(ErrKind::Undefined("zero_real_key")),
            RV::Table(_) => Err(ErrKind::Undefined("table_key")),
            _ => Ok(()),
        }
    }

    fn table_get(&mut self, t: &RV, k: &RV) -> R<RV> {
        self.stats.table_ops += 1;
        let RV::Table(t) = t else { return Err(ErrKind::InvalidArgument) };
        self.key_ok(k)?;
        let t = t.borrow();
        Ok(t.iter().find(|(ek, _)| ek.eq(k)).map(|(_, v)| v.clone()).unwrap_or(RV::Nil))
    }

    /// storing `v` into `target` would make the table reachable from itself
    fn would_cycle(v: &RV, target: &Rc<RefCell<Vec<(RV, RV)>>>, depth: u32) -> bool {
        match v {
            RV::Table(t) => {
                if Rc::ptr_eq(t, target) || depth > 16 {
                    return true;
                }
                t.borrow().iter().any(|(k, x)| Self::would_cycle(k, target, depth + 1) || Self::would_cycle(x, target, depth + 1))
            }
            _ => false,
        }
    }

    fn table_set(&mut self, t: &RV, k: RV, v: RV) -> R<()> {
        self.stats.table_ops += 1;
        let RV::Table(t) = t else { return Err(ErrKind::InvalidArgument) };
        self.key_ok(&k)?;
        if Self::would_cycle(&v, t, 0) {
            return Err(ErrKind::Undefined("cyclic_table"));
        }
        if t.borrow().len() > 200 {
            return Err(ErrKind::Undefined("table_too_big"));
        }
        let mut t = t.borrow_mut();
        match t.iter().position(|(ek, _)| ek.eq(&k)) {
            Some(i) => t[i].1 = v,
            None => t.push((k, v)),
        }
        Ok(())
    }

    fn table_append(&mut self, t: &RV, v: RV) -> R<()> {
        self.stats.table_ops += 1;
        let RV::Table(t) = t else { return Err(ErrKind::InvalidArgument) };
        if Self::would_cycle(&v, t, 0) {
            return Err(ErrKind::Undefined("cyclic_table"));
        }
        if t.borrow().len() > 200 {
            return Err(ErrKind::Undefined("table_too_big"));
        }
        let mut t = t.borrow_mut();
        let mut idx = t.len() as i64;
        while t.iter().any(|(k, _)| matches!(k, RV::Int(i) if *i == idx)) {
            idx += 1;
        }
        t.push((RV::Int(idx), v));
        Ok(())
    }

    fn arith(&mut self, op: BinOp, a: &RV, b: &RV) -> RV {
        if a.is_real() || b.is_real() {
            if a.is_int() || b.is_int() {
                self.stats.mixed_numeric += 1;
            }
            let (x, y) = (a.to_f64(), b.to_f64());
            return RV::Real(match op {
                BinOp::Add => x + y,
                BinOp::Sub => x - y,
                BinOp::Mul => x * y,
                _ => x / y,
            });
        }
        if a.is_int() || b.is_int() {
            let (x, y) = (a.to_i64(), b.to_i64());
            let (r, o) = match op {
                BinOp::Add => x.overflowing_add(y),
                BinOp::Sub => x.overflowing_sub(y),
                BinOp::Mul => x.overflowing_mul(y),
                _ => return RV::Real(x as f64 / y as f64),
            };
            if o {
                self.tags.insert("int_overflow".into());
            }
            return RV::Int(r);
        }
        RV::Nil
    }

    fn binop(&mut self, op: BinOp, a: &RV, b: &RV) -> RV {
        let bool_rv = |x: bool| RV::Int(x as i64);
        match op {
            BinOp::Add | BinOp::Sub | BinOp::Mul | BinOp::Div => self.arith(op, a, b),
            BinOp::Less => bool_rv(a.cmp(b) == Some(std::cmp::Ordering::Less)),
            BinOp::LessOrEq => bool_rv(matches!(a.cmp(b), Some(std::cmp::Ordering::Less | std::cmp::Ordering::Equal))),
            BinOp::Equals => bool_rv(a.eq(b)),
            BinOp::NotEquals => bool_rv(!a.eq(b)),
            BinOp::And => bool_rv(a.truthy() && b.truthy()),
            BinOp::Or => bool_rv(a.truthy() || b.truthy()),
            BinOp::Xor => bool_rv(a.truthy() ^ b.truthy()),
        }
    }

    fn call_value(&mut self, act: &Activation, f: &RV, args: Vec<RV>, temps_below: usize) -> R<RV> {
        let below = act.below + self.live_values(act) + temps_below;
        match f {
            RV::Func(id) => self.call_function(*id, args, false, below),
            RV::Closure(c) => {
                let c = c.clone();
                self.call_closure(&c, args, below)
            }
            RV::Native(n) => {
                let n = n.clone();
                self.call_native(act, &n, args)
            }
            _ => Err(ErrKind::InvalidArgument),
        }
    }

    pub fn native_arity(name: &str) -> Option<usize> {
        // typed natives of C18: the name spells the signature, one letter per parameter
        if let Some(sig) = name.strip_prefix("t_") {
            if crate::typednatives::SIGNATURES.contains(&name) {
                return Some(if sig == "z" { 0 } else { sig.len() });
            }
            return None;
        }
        if crate::typednatives::RETURNERS.contains(&name) {
            return Some(0);
        }
        Some(match name {
            "log" | "id" | "call0" | "mk_str" | "slen" => 1,
            "log2" | "call1" => 2,
            "log3" | "call2" => 3,
            "fail" => 0,
            _ => return None,
        })
    }

    fn call_native(&mut self, act: &Activation, name: &str, args: Vec<RV>) -> R<RV> {
        let Some(arity) = Self::native_arity(name) else { return Err(ErrKind::ProcedureNotFound) };
        if arity != args.len() {
            return Err(ErrKind::Undefined("native_arity_mismatch"));
        }
        let wrap = |n: &str, e: ErrKind| match e {
            ErrKind::Undefined(w) => ErrKind::Undefined(w),
            ErrKind::AbortSignal => ErrKind::Undefined("abort_in_native_reentry"),
            other => ErrKind::TaskFailure(n.to_string(), Box::new(other)),
        };
        if let Some(sig) = name.strip_prefix("t_") {
            // the documented conversions: int/real from anything (nil = 0, string/table = length),
            // bool by truthiness, &str / table only from that kind, Nilable: nil => none
            let mut rec = vec![];
            let mut bad = vec![];
            for (i, (ty, a)) in sig.chars().filter(|c| *c != 'z').zip(args.iter()).enumerate() {
                let conv = match (ty, a) {
                    ('i', a) => Some(MV::Int(a.to_i64())),
                    ('f', a) => Some(MV::Real(a.to_f64())),
                    ('b', a) => Some(MV::Int(a.truthy() as i64)),
                    ('s', RV::Str(s)) => Some(MV::Str(s.to_string())),
                    ('v', a) => Some(a.to_mv()),
                    ('t' | 'p', RV::Table(_)) => Some(a.to_mv()),
                    ('n', RV::Nil) | ('m', RV::Nil) => Some(MV::Nil),
                    ('n', a) => Some(MV::Int(a.to_i64())),
                    ('m', RV::Str(s)) => Some(MV::Str(s.to_string())),
                    _ => None,
                };
                match conv {
                    Some(m) => rec.push(m),
                    None => bad.push(i + 1),
                }
            }
            if !bad.is_empty() {
                self.tags.insert(format!("conv_fail:{}", bad.iter().map(|i| format!("#{}", i)).collect::<Vec<_>>().join(",")));
                return Err(ErrKind::TaskFailure(name.to_string(), Box::new(ErrKind::InvalidArgument)));
            }
            self.log.push((name.to_string(), rec));
            return Ok(RV::Int(crate::typednatives::code_of(name)));
        }
        match name {
            "r_nil" => return Ok(RV::Nil),
            "r_int" => return Ok(RV::Int(-42)),
            "r_real" => return Ok(RV::Real(2.5)),
            "r_str" => return Ok(RV::str("from host")),
            "r_table" => {
                let t = RV::new_table();
                self.table_set(&t, RV::Int(1), RV::Int(2))?;
                return Ok(t);
            }
            _ => {}
        }
        match name {
            "log" | "log2" | "log3" => {
                if self.log.len() > 1500 {
                    return Err(ErrKind::Undefined("log_too_big"));
                }
                self.log.push((name.to_string(), args.iter().map(|a| a.to_mv()).collect()));
                Ok(RV::Nil)
            }
            "id" => Ok(args[0].clone()),
            "mk_str" => {
                let n = args[0].to_i64().clamp(0, 40) as usize;
                Ok(RV::str(&"x".repeat(n)))
            }
            "fail" => Err(ErrKind::TaskFailure("fail".into(), Box::new(ErrKind::InvalidArgument))),
            // a native with a `&str` parameter: anything but a string is rejected by the conversion
            "slen" => match &args[0] {
                RV::Str(s) => Ok(RV::Int(s.len() as i64)),
                _ => Err(ErrKind::TaskFailure("slen".into(), Box::new(ErrKind::InvalidArgument))),
            },
            "call0" | "call1" | "call2" => {
                self.stats.native_reentries += 1;
                let f = args[0].clone();
                let rest: Vec<RV> = args[1..].to_vec();
                match &f {
                    RV::Func(_) | RV::Closure(_) | RV::Native(_) => {}
                    _ => return Err(wrap(name, ErrKind::InvalidArgument)),
                }
                self.call_value(act, &f, rest, 0).map_err(|e| wrap(name, e))
            }
            _ => Err(ErrKind::ProcedureNotFound),
        }
    }

    fn eval_args(&mut self, act: &mut Activation, args: &[Expr]) -> R<Vec<RV>> {
        let mut out = Vec::with_capacity(args.len());
        for a in args {
            out.push(self.eval(act, a)?);
        }
        Ok(out)
    }

    fn eval(&mut self, act: &mut Activation, e: &Expr) -> R<RV> {
        self.tick()?;
        Ok(match e {
            Expr::Nil => RV::Nil,
            Expr::Int(i) => RV::Int(*i),
            Expr::Real(r) => RV::Real(*r),
            Expr::Str(s) => RV::str(s),
            Expr::Bin(op, a, b) => {
                let x = self.eval(act, a)?;
                let y = self.eval(act, b)?;
                self.binop(*op, &x, &y)
            }
            Expr::Not(a) => {
                let x = self.eval(act, a)?;
                RV::Int(!x.truthy() as i64)
            }
            Expr::Var(n) => self.read_var(act, n)?,
            Expr::IfElse(c, t, f) => {
                let cv = self.eval(act, c)?;
                if cv.truthy() {
                    self.eval(act, t)?
                } else {
                    self.eval(act, f)?
                }
            }
            Expr::Call(_, fid, args) => {
                let argv = self.eval_args(act, args)?;
                let below = act.below + self.live_values(act);
                self.call_function(*fid, argv, false, below)?
            }
            Expr::DynCall(f, args) => {
                self.stats.dyn_calls += 1;
                let argv = self.eval_args(act, args)?;
                let fv = self.eval(act, f)?;
                self.call_value(act, &fv, argv, 0)?
            }
            Expr::CallNative(n, args) => {
                let argv = self.eval_args(act, args)?;
                self.call_native(act, n, argv)?
            }
            Expr::FuncRef(_, id) => RV::Func(*id),
            Expr::NativeRef(n) => RV::Native(Rc::from(n.as_str())),
            Expr::Closure(def) => {
                self.stats.closures_created += 1;
                if act.below > 0 {
                    self.stats.closures_created_offset_gt0 += 1;
                }
                if self.loop_depth > 0 {
                    self.stats.closures_created_in_loop += 1;
                }
                // which open loop-body scopes own a variable this closure (or a nested one) names?
                let mut mentioned = BTreeSet::new();
                names_in_closure(def, &mut mentioned);
                for (idx, _, captured) in act.loop_scopes.iter_mut() {
                    if act.scopes[*idx].iter().any(|(n, _)| !n.is_empty() && mentioned.contains(n)) {
                        *captured = true;
                    }
                }
                // snapshot of every variable visible here (innermost first); cells are shared
                let mut cap: Vec<(String, Cell)> = vec![];
                for scope in act.scopes.iter().rev() {
                    for (n, c) in scope.iter().rev() {
                        cap.push((n.clone(), c.clone()));
                    }
                }
                if let Some(outer) = &act.captured {
                    cap.extend(outer.iter().cloned());
                }
                RV::Closure(Rc::new(RClosure { def: def.clone(), captured: Rc::new(cap) }))
            }
            Expr::CreateTable => RV::new_table(),
            Expr::Array(items) => {
                // the VM leaves one nil per element on its stack (known finding): same effect
                // as a statement-level value
                act.junk += items.len() as u64;
                self.stats.array_junk += items.len() as u64;
                let t = RV::new_table();
                for it in items {
                    let v = self.eval(act, it)?;
                    self.table_append(&t, v)?;
                }
                t
            }
            Expr::GetProp(t, k) => {
                let tv = self.eval(act, t)?;
                let kv = self.eval(act, k)?;
                self.table_get(&tv, &kv)?
            }
            Expr::Get(t, i) => {
                let tv = self.eval(act, t)?;
                let iv = self.eval(act, i)?;
                self.stats.table_ops += 1;
                let RV::Table(tb) = &tv else { return Err(ErrKind::InvalidArgument) };
                let RV::Int(i) = iv else { return Err(ErrKind::InvalidArgument) };
                if i < 0 {
                    return Err(ErrKind::InvalidArgument);
                }
                if i as usize >= tb.borrow().len() && tb.borrow().iter().any(|(k, _)| matches!(k, RV::Nil)) {
                    // row beyond the end of a table that has a nil key: the statement does not say
                    // whether the nil-keyed entry may be reported; not judged
                    return Err(ErrKind::Undefined("row_out_of_range_with_nil_key"));
                }
                let (k, v) = tb.borrow().get(i as usize).cloned().unwrap_or((RV::Nil, RV::Nil));
                let row = RV::new_table();
                self.table_set(&row, RV::str("key"), k)?;
                self.table_set(&row, RV::str("value"), v)?;
                row
            }
            Expr::Len(a) => {
                let v = self.eval(act, a)?;
                RV::Int(match &v {
                    RV::Nil => 0,
                    RV::Int(_) | RV::Real(_) => 1,
                    other => other.len() as i64,
                })
            }
            Expr::PopTable(a) => {
                let v = self.eval(act, a)?;
                self.stats.table_ops += 1;
                let RV::Table(t) = &v else { return Err(ErrKind::InvalidArgument) };
                let popped = t.borrow_mut().pop();
                popped.map(|(_, v)| v).unwrap_or(RV::Nil)
            }
            Expr::Composite(stmts, val) => {
                for s in stmts {
                    match self.exec(act, s)? {
                        Flow::Normal => {}
                        // Return / Abort inside a value position is outside the well-scoped domain
                        _ => return Err(ErrKind::Undefined("control_flow_in_value")),
                    }
                }
                self.eval(act, val)?
            }
        })
    }

    fn set_var(&mut self, act: &mut Activation, name: &str, v: RV) -> R<()> {
        if let Some((props, last)) = name.rsplit_once('.') {
            let t = self.read_var(act, props)?;
            return self.table_set(&t, RV::str(last), v);
        }
        match self.lookup(act, name) {
            Some((c, captured)) => {
                if captured {
                    self.stats.captured_writes += 1;
                }
                self.written_cells.insert(Rc::as_ptr(&c) as usize);
                *c.borrow_mut() = v;
            }
            None => self.declare(act, name, v),
        }
        Ok(())
    }

    /// The VM closes a captured loop-body local by looking at the top of the stack; a
    /// statement-level value left above it (known finding) changes what is closed.
    fn leave_loop_scope(&mut self, act: &mut Activation) {
        if let Some((_, junk_at_entry, captured)) = act.loop_scopes.pop() {
            if captured && act.junk > junk_at_entry {
                self.tags.insert("junk_above_captured_local".into());
            }
        }
    }

    fn in_loop<T>(&mut self, f: impl FnOnce(&mut Self) -> T) -> T {
        self.loop_depth += 1;
        let r = f(self);
        self.loop_depth -= 1;
        r
    }

    fn exec(&mut self, act: &mut Activation, s: &Stmt) -> R<Flow> {
        self.tick()?;
        match s {
            Stmt::SetVar(n, e) => {
                let v = self.eval(act, e)?;
                self.set_var(act, n, v)?;
            }
            Stmt::SetGlobal(n, e) => {
                let v = self.eval(act, e)?;
                self.globals.insert(n.clone(), v);
            }
            Stmt::IfTrue(c, b) => {
                if self.eval(act, c)?.truthy() {
                    return self.exec(act, b);
                }
            }
            Stmt::IfFalse(c, b) => {
                if !self.eval(act, c)?.truthy() {
                    return self.exec(act, b);
                }
            }
            Stmt::IfElse(c, t, f) => {
                return if self.eval(act, c)?.truthy() { self.exec(act, t) } else { self.exec(act, f) };
            }
            Stmt::While(c, b) => {
                return self.in_loop(|me| {
                    loop {
                        me.tick()?;
                        if !me.eval(act, c)?.truthy() {
                            break;
                        }
                        me.stats.loop_iterations += 1;
                        if me.live_values(act) > 0 {
                            me.stats.loop_iterations_with_local += 1;
                        }
                        match me.exec(act, b)? {
                            Flow::Normal => {}
                            Flow::Return(v) => {
                                me.stats.returns_in_loop += 1;
                                return Ok(Flow::Return(v));
                            }
                            Flow::Abort => return Ok(Flow::Abort),
                        }
                    }
                    Ok(Flow::Normal)
                });
            }
            Stmt::Repeat(n, i, b) => {
                let nv = self.eval(act, n)?;
                return self.in_loop(|me| {
                    // hidden locals (n, counter) live in their own scope
                    act.scopes.push(vec![("".into(), Rc::new(RefCell::new(nv.clone()))), ("".into(), Rc::new(RefCell::new(RV::Int(0))))]);
                    let mut counter = 0i64;
                    let mut flow = Flow::Normal;
                    loop {
                        me.tick()?;
                        if RV::Int(counter).cmp(&nv) != Some(std::cmp::Ordering::Less) {
                            break;
                        }
                        me.stats.loop_iterations += 1;
                        me.stats.loop_iterations_with_local += 1;
                        act.scopes.push(vec![]);
                        act.loop_scopes.push((act.scopes.len() - 1, act.junk, false));
                        if let Some(name) = i {
                            me.declare(act, name, RV::Int(counter));
                        }
                        let r = me.exec(act, b);
                        act.scopes.pop();
                        me.leave_loop_scope(act);
                        match r? {
                            Flow::Normal => {}
                            Flow::Return(v) => {
                                me.stats.returns_in_loop += 1;
                                flow = Flow::Return(v);
                                break;
                            }
                            Flow::Abort => {
                                flow = Flow::Abort;
                                break;
                            }
                        }
                        counter += 1;
                    }
                    act.scopes.pop();
                    Ok(flow)
                });
            }
            Stmt::ForEach { i, k, v, iterable, body } => {
                let tv = self.eval(act, iterable)?;
                let RV::Table(t) = &tv else { return Err(ErrKind::InvalidArgument) };
                let t = t.clone();
                return self.in_loop(|me| {
                    act.scopes.push((0..5).map(|_| ("".to_string(), Rc::new(RefCell::new(RV::Nil)))).collect());
                    let mut idx = 0usize;
                    let mut flow = Flow::Normal;
                    loop {
                        me.tick()?;
                        let entry = {
                            let tb = t.borrow();
                            if idx < tb.len() {
                                Some(tb[idx].clone())
                            } else {
                                None
                            }
                        };
                        let Some((key, val)) = entry else { break };
                        me.stats.loop_iterations += 1;
                        me.stats.loop_iterations_with_local += 1;
                        act.scopes.push(vec![]);
                        act.loop_scopes.push((act.scopes.len() - 1, act.junk, false));
                        if let Some(name) = v {
                            me.declare(act, name, val);
                        }
                        if let Some(name) = k {
                            me.declare(act, name, key);
                        }
                        if let Some(name) = i {
                            me.declare(act, name, RV::Int(idx as i64));
                        }
                        let len_before = t.borrow().len();
                        let r = me.exec(act, body);
                        act.scopes.pop();
                        me.leave_loop_scope(act);
                        if t.borrow().len() != len_before {
                            me.tags.insert("mutate_during_foreach".into());
                        }
                        match r? {
                            Flow::Normal => {}
                            Flow::Return(v) => {
                                me.stats.returns_in_loop += 1;
                                flow = Flow::Return(v);
                                break;
                            }
                            Flow::Abort => {
                                flow = Flow::Abort;
                                break;
                            }
                        }
                        idx += 1;
                    }
                    act.scopes.pop();
                    Ok(flow)
                });
            }
            Stmt::Return(e) => {
                let v = self.eval(act, e)?;
                return Ok(Flow::Return(v));
            }
            Stmt::Abort => return Ok(Flow::Abort),
            Stmt::Comment(_) => {}
            Stmt::Composite(stmts) => {
                for s in stmts {
                    match self.exec(act, s)? {
                        Flow::Normal => {}
                        other => return Ok(other),
                    }
                }
            }
            Stmt::SetProp(v, t, k) => {
                let vv = self.eval(act, v)?;
                let tv = self.eval(act, t)?;
                let kv = self.eval(act, k)?;
                self.table_set(&tv, kv, vv)?;
            }
            Stmt::Append(v, t) => {
                let vv = self.eval(act, v)?;
                let tv = self.eval(act, t)?;
                self.table_append(&tv, vv)?;
            }
            Stmt::ExprStmt(e) => {
                self.stats.expr_stmts += 1;
                act.junk += 1;
                if self.loop_depth > 0 {
                    self.tags.insert("expr_stmt_in_loop".into());
                }
                self.eval(act, e)?;
            }
        }
        Ok(Flow::Normal)
    }
}

// ---------------------------------------------------------------------------------------------
// standard library: the contracts of the property text, written as direct specifications
// ---------------------------------------------------------------------------------------------

pub const STD_BASE: usize = 1_000_000;
pub const STD_NAMES: [&str; 10] = ["filter", "map", "any", "min", "max", "min_by_key", "max_by_key", "sorted", "sorted_by_key", "to_array"];

/// resolved id of `std.<name>` for `Expr::Call`
pub fn std_id(name: &str) -> Option<usize> {
    STD_NAMES.iter().position(|n| *n == name).map(|i| STD_BASE + i)
}

impl<'p> Interp<'p> {
    fn callable_arity(&self, f: &RV) -> Option<usize> {
        match f {
            RV::Func(id) => self.prog.funcs.get(*id).map(|f| f.params.len()),
            RV::Closure(c) => Some(c.def.params.len()),
            RV::Native(n) => Self::native_arity(n),
            _ => None,
        }
    }

    /// the library pushes `pushed` in order and calls `f`; the callee consumes the last `arity`
    fn call_cb(&mut self, f: &RV, pushed: &[RV], below: usize) -> R<RV> {
        let Some(a) = self.callable_arity(f) else { return Err(ErrKind::InvalidArgument) };
        if a > pushed.len() {
            return Err(ErrKind::Undefined("callback_arity"));
        }
        if a < pushed.len() {
            self.tags.insert("callback_leaves_values".into());
        }
        let args = pushed[pushed.len() - a..].to_vec();
        let act = Activation { scopes: vec![vec![]], captured: None, is_main: false, below, junk: 0, loop_scopes: vec![] };
        self.call_value(&act, f, args, 0)
    }

    fn call_std(&mut self, which: usize, args: Vec<RV>, below: usize) -> R<RV> {
        let name = STD_NAMES[which];
        let wrap = |native: &str, e: ErrKind| match e {
            ErrKind::Undefined(w) => ErrKind::Undefined(w),
            ErrKind::AbortSignal => ErrKind::Undefined("abort_in_native_reentry"),
            other => ErrKind::TaskFailure(native.to_string(), Box::new(other)),
        };
        // the first supplied argument binds to the LAST declared parameter
        let (cb, iterable) = match (name, args.len()) {
            ("filter" | "map" | "any" | "min_by_key" | "max_by_key" | "sorted_by_key", 2) => (Some(args[0].clone()), args[1].clone()),
            ("min" | "max" | "sorted" | "to_array", 1) => (None, args[0].clone()),
            _ => return Err(ErrKind::Undefined("arity_mismatch")),
        };
        self.stats.calls += 1;
        match name {
            "filter" | "map" | "any" => {
                let cb = cb.unwrap();
                let res = RV::new_table();
                let RV::Table(t) = &iterable else { return Err(ErrKind::InvalidArgument) };
                let t = t.clone();
                let mut idx = 0usize;
                loop {
                    self.tick()?;
                    let entry = {
                        let tb = t.borrow();
                        tb.get(idx).cloned()
                    };
                    let Some((k, v)) = entry else { break };
                    let r = self.call_cb(&cb, &[RV::Int(idx as i64), v.clone(), k.clone()], below + 8)?;
                    match name {
                        "filter" => {
                            if r.truthy() {
                                self.table_set(&res, k, v)?;
                            }
                        }
                        "map" => self.table_set(&res, k, r)?,
                        _ => {
                            if r.truthy() {
                                return Ok(k);
                            }
                        }
                    }
                    idx += 1;
                }
                Ok(if name == "any" { RV::Nil } else { res })
            }
            "min" | "max" | "min_by_key" | "max_by_key" => {
                let less = name.starts_with("min");
                let native = if less { "__min" } else { "__max" };
                let RV::Table(t) = &iterable else { return Ok(iterable) };
                let entries: Vec<(RV, RV)> = t.borrow().clone();
                if entries.is_empty() {
                    return Ok(RV::Nil);
                }
                let mut best = 0usize;
                let mut best_key = RV::Nil;
                for (j, (k, v)) in entries.iter().enumerate() {
                    self.tick()?;
                    let key = match &cb {
                        None => v.clone(), // row_to_value
                        Some(f) => self.call_cb(f, &[v.clone(), k.clone()], below + 4).map_err(|e| wrap(native, e))?,
                    };
                    if j == 0 {
                        best_key = key;
                        continue;
                    }
                    let better = match key.cmp(&best_key) {
                        Some(std::cmp::Ordering::Less) => less,
                        Some(std::cmp::Ordering::Greater) => !less,
                        _ => false,
                    };
                    if better {
                        best = j;
                        best_key = key;
                    }
                }
                let row = RV::new_table();
                self.table_set(&row, RV::str("key"), entries[best].0.clone())?;
                self.table_set(&row, RV::str("value"), entries[best].1.clone())?;
                Ok(row)
            }
            "sorted" | "sorted_by_key" => {
                let RV::Table(t) = &iterable else { return Ok(iterable) };
                let entries: Vec<(RV, RV)> = t.borrow().clone();
                let mut keyed: Vec<(RV, RV, RV)> = vec![];
                for (k, v) in entries {
                    self.tick()?;
                    let key = match &cb {
                        None => v.clone(),
                        Some(f) => self.call_cb(f, &[v.clone(), k.clone()], below + 4).map_err(|e| wrap("__sort", e))?,
                    };
                    if let RV::Real(r) = &key {
                        if r.is_nan() {
                            return Err(ErrKind::Undefined("nan_sort_key"));
                        }
                    }
                    keyed.push((key, k, v));
                }
                // stable, ascending; incomparable keys keep their order
                keyed.sort_by(|a, b| a.0.cmp(&b.0).unwrap_or(std::cmp::Ordering::Equal));
                let out = RV::new_table();
                for (_, k, v) in keyed {
                    self.table_set(&out, k, v)?;
                }
                Ok(out)
            }
            _ => {
                // to_array
                let RV::Table(t) = &iterable else { return Ok(iterable) };
                let vals: Vec<RV> = t.borrow().iter().map(|(_, v)| v.clone()).collect();
                let out = RV::new_table();
                for (i, v) in vals.into_iter().enumerate() {
                    self.table_set(&out, RV::Int(i as i64), v)?;
                }
                Ok(out)
            }
        }
    }
}

fn names_in_expr(e: &Expr, out: &mut BTreeSet<String>) {
    match e {
        Expr::Var(n) => {
            out.insert(n.split('.').next().unwrap_or("").to_string());
        }
        Expr::Bin(_, a, b) | Expr::GetProp(a, b) | Expr::Get(a, b) => {
            names_in_expr(a, out);
            names_in_expr(b, out);
        }
        Expr::Not(a) | Expr::Len(a) | Expr::PopTable(a) => names_in_expr(a, out),
        Expr::IfElse(a, b, c) => {
            names_in_expr(a, out);
            names_in_expr(b, out);
            names_in_expr(c, out);
        }
        Expr::Call(_, _, args) | Expr::CallNative(_, args) | Expr::Array(args) => args.iter().for_each(|a| names_in_expr(a, out)),
        Expr::DynCall(f, args) => {
            names_in_expr(f, out);
            args.iter().for_each(|a| names_in_expr(a, out));
        }
        Expr::Closure(d) => names_in_closure(d, out),
        Expr::Composite(stmts, v) => {
            stmts.iter().for_each(|s| names_in_stmt(s, out));
            names_in_expr(v, out);
        }
        Expr::Nil | Expr::Int(_) | Expr::Real(_) | Expr::Str(_) | Expr::FuncRef(..) | Expr::NativeRef(_) | Expr::CreateTable => {}
    }
}

fn names_in_stmt(s: &Stmt, out: &mut BTreeSet<String>) {
    match s {
        Stmt::SetVar(n, e) => {
            out.insert(n.split('.').next().unwrap_or("").to_string());
            names_in_expr(e, out);
        }
        Stmt::SetGlobal(_, e) | Stmt::Return(e) | Stmt::ExprStmt(e) => names_in_expr(e, out),
        Stmt::IfTrue(c, b) | Stmt::IfFalse(c, b) | Stmt::While(c, b) | Stmt::Repeat(c, _, b) => {
            names_in_expr(c, out);
            names_in_stmt(b, out);
        }
        Stmt::IfElse(c, t, f) => {
            names_in_expr(c, out);
            names_in_stmt(t, out);
            names_in_stmt(f, out);
        }
        Stmt::ForEach { iterable, body, .. } => {
            names_in_expr(iterable, out);
            names_in_stmt(body, out);
        }
        Stmt::Composite(v) => v.iter().for_each(|s| names_in_stmt(s, out)),
        Stmt::SetProp(a, b, c) => {
            names_in_expr(a, out);
            names_in_expr(b, out);
            names_in_expr(c, out);
        }
        Stmt::Append(a, b) => {
            names_in_expr(a, out);
            names_in_expr(b, out);
        }
        Stmt::Abort | Stmt::Comment(_) => {}
    }
}

/// every variable name a closure body (and the closures nested in it) mentions
pub fn names_in_closure(d: &ClosureDef, out: &mut BTreeSet<String>) {
    d.body.iter().for_each(|s| names_in_stmt(s, out));
}
