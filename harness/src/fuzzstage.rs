//! Second stage of the thorough tier: a coverage-guided libFuzzer campaign (cargo-fuzz, built with
//! AddressSanitizer) over the same choice-stream decoder and the same oracle as the proptest stage.
//!
//! The fuzz binary aborts on a failure whose signature is not a known finding; libFuzzer saves the
//! input. Every saved input is then re-run in isolation: first by the ordinary `check one` process
//! (oracle failures, crashes, hangs), and if that passes, by the sanitizer build itself (memory
//! errors that only AddressSanitizer sees). Only what reproduces twice is reported.

use crate::choice::{fnv64, hex, unhex};
use crate::engine::{run_one_isolated, shrink_isolated, verif_root, write_replay, Failure, Known, OneResult, Property, Tier};
use serde_json::{json, Value as J};
use std::collections::BTreeMap;
use std::path::{Path, PathBuf};
use std::process::{Command, Stdio};
use std::time::{Duration, Instant};

pub struct FuzzReport {
    pub evidence: J,
    pub runs: u64,
    pub execs: u64,
}

fn target_name(id: &str) -> String {
    id.to_lowercase()
}

fn fuzz_bin(id: &str) -> PathBuf {
    verif_root().join("fuzz/target/x86_64-unknown-linux-gnu/release").join(target_name(id))
}

/// builds the target from /repo's current tree; Err(text) if the build fails
pub fn build(id: &str) -> Result<PathBuf, String> {
    let root = verif_root();
    let out = Command::new("cargo")
        .args(["+nightly", "fuzz", "build", "--fuzz-dir", "../fuzz", &target_name(id)])
        .current_dir(root.join("harness"))
        .env("CARGO_NET_OFFLINE", "true")
        .stdin(Stdio::null())
        .output()
        .map_err(|e| format!("cargo fuzz build could not be started: {}", e))?;
    if !out.status.success() {
        let err = String::from_utf8_lossy(&out.stderr);
        let tail: String = err.lines().rev().take(12).collect::<Vec<_>>().into_iter().rev().collect::<Vec<_>>().join("\n");
        return Err(format!("cargo fuzz build failed:\n{}", tail));
    }
    let bin = fuzz_bin(id);
    if !bin.exists() {
        return Err(format!("fuzz binary {} missing after the build", bin.display()));
    }
    Ok(bin)
}

fn sanitizer_env(cmd: &mut Command) {
    cmd.env("ASAN_OPTIONS", "detect_leaks=0:abort_on_error=1:symbolize=1:allocator_may_return_null=1:detect_stack_use_after_return=0")
        .env("RUST_BACKTRACE", "0");
}

/// runs the sanitizer build on one input file; (exit ok, signature, tail of stderr)
fn run_fuzz_bin_once(bin: &Path, file: &Path, timeout: Duration) -> (bool, String, String) {
    let mut cmd = Command::new(bin);
    cmd.arg(file).arg("-rss_limit_mb=8192").stdin(Stdio::null()).stdout(Stdio::null()).stderr(Stdio::piped());
    cmd.env("VERIF_ROOT", verif_root());
    sanitizer_env(&mut cmd);
    let Ok(mut child) = cmd.spawn() else { return (true, String::new(), "spawn failed".into()) };
    let start = Instant::now();
    // stderr is read by a thread so that a chatty sanitizer report cannot block the child
    let mut stderr = child.stderr.take().unwrap();
    let reader = std::thread::spawn(move || {
        use std::io::Read;
        let mut s = String::new();
        let _ = stderr.read_to_string(&mut s);
        s
    });
    let status = loop {
        match child.try_wait() {
            Ok(Some(st)) => break Some(st),
            Ok(None) => {
                if start.elapsed() > timeout {
                    let _ = child.kill();
                    let _ = child.wait();
                    break None;
                }
                std::thread::sleep(Duration::from_millis(10));
            }
            Err(_) => break None,
        }
    };
    let text = reader.join().unwrap_or_default();
    let tail: String = text.lines().rev().take(60).collect::<Vec<_>>().into_iter().rev().collect::<Vec<_>>().join("\n");
    match status {
        None => (false, "fuzzbuild:timeout".into(), tail),
        Some(st) if st.success() => (true, String::new(), tail),
        Some(_) => {
            // oracle failure printed by the target, or a sanitizer summary
            let mut sig = String::from("fuzzbuild:crash");
            for l in text.lines() {
                if let Some(rest) = l.strip_prefix("VIOLATION property=") {
                    if let Some(p) = rest.find("sig=") {
                        sig = format!("{}", rest[p + 4..].split_whitespace().next().unwrap_or("?"));
                    }
                    break;
                }
                if let Some(rest) = l.strip_prefix("SUMMARY: AddressSanitizer: ") {
                    // "heap-use-after-free /path/file.rs:12:5 in cao_lang::...::func"
                    let kind = rest.split_whitespace().next().unwrap_or("?");
                    let func = rest.rsplit(" in ").next().unwrap_or("?").split('<').next().unwrap_or("?");
                    let func: String = func.chars().filter(|c| c.is_alphanumeric() || *c == ':' || *c == '_').collect();
                    sig = format!("asan:{}:{}", kind, func);
                    break;
                }
            }
            (false, sig, tail)
        }
    }
}

/// replay of a finding that only the sanitizer build shows (`"engine": "libfuzzer"` in the file)
pub fn replay(prop: &dyn Property, bytes: &[u8]) -> Result<Option<Failure>, String> {
    let bin = build(prop.id())?;
    let dir = verif_root().join("out").join("scratch");
    let _ = std::fs::create_dir_all(&dir);
    let f = dir.join(format!("fuzz_replay_{}_{}", prop.id(), std::process::id()));
    std::fs::write(&f, bytes).map_err(|e| e.to_string())?;
    let (ok, sig, tail) = run_fuzz_bin_once(&bin, &f, prop.case_timeout() * 10);
    let _ = std::fs::remove_file(&f);
    Ok(if ok { None } else { Some(Failure::new("sanitizer_clean", &sig, tail)) })
}

#[allow(clippy::too_many_arguments)]
pub fn run(
    prop: &dyn Property,
    tier: Tier,
    seed: u64,
    nworkers: u64,
    known: &[Known],
    violations: &mut Vec<(PathBuf, Failure)>,
    known_hits: &mut BTreeMap<String, u64>,
    inconclusive: &mut Vec<String>,
    scratch: &Path,
) -> FuzzReport {
    let id = prop.id();
    let start = Instant::now();
    let bin = match build(id) {
        Ok(b) => b,
        Err(e) => {
            inconclusive.push(format!("fuzz stage: {}", e.lines().next().unwrap_or("build failed")));
            return FuzzReport { evidence: json!({"engine": "libFuzzer (cargo-fuzz, AddressSanitizer)", "status": "build failed", "detail": e}), runs: 0, execs: 0 };
        }
    };
    let total_runs: u64 = std::env::var("VERIF_FUZZ_RUNS").ok().and_then(|s| s.parse().ok()).unwrap_or_else(|| prop.quick_cases() * 2);
    // libFuzzer drifts towards long, slow inputs, so the campaign also has a wall-clock cap; reaching
    // it only ends the exploration early (the number of inputs actually run is what is reported)
    let max_s: u64 = std::env::var("VERIF_FUZZ_MAX_S").ok().and_then(|s| s.parse().ok()).unwrap_or(600);
    let per_worker = (total_runs / nworkers).max(1);
    // a fresh corpus makes the campaign a function of the seed (approximately: libFuzzer's own
    // scheduling); VERIF_FUZZ_CORPUS names a directory that persists between runs instead
    let base = verif_root().join("out").join("fuzz").join(id);
    let persistent = std::env::var_os("VERIF_FUZZ_CORPUS").map(PathBuf::from);
    let corpus = persistent.clone().unwrap_or_else(|| base.join(format!("corpus_{}", std::process::id())));
    let artifacts = base.join(format!("artifacts_{}", std::process::id()));
    let _ = std::fs::create_dir_all(&corpus);
    let _ = std::fs::create_dir_all(&artifacts);

    // starting corpus: the committed regression inputs, the property's fixed cases and a few
    // pseudo-random strings of full length (libFuzzer grows lengths slowly from an empty corpus)
    let mut seeds = 0u64;
    let mut put = |bytes: &[u8]| {
        let p = corpus.join(format!("seed_{:016x}", fnv64(bytes)));
        if std::fs::write(p, bytes).is_ok() {
            seeds += 1;
        }
    };
    if let Ok(rd) = std::fs::read_dir(verif_root().join("replays").join(id)) {
        for e in rd.filter_map(|e| e.ok()) {
            if let Ok(s) = std::fs::read_to_string(e.path()) {
                if let Ok(j) = serde_json::from_str::<J>(&s) {
                    let b = unhex(j["choices"].as_str().unwrap_or(""));
                    if !b.is_empty() && b.len() <= prop.max_len() {
                        put(&b);
                    }
                }
            }
        }
    }
    for b in prop.fixed_cases() {
        put(&b);
    }
    let mut x = seed ^ 0x9e37_79b9_7f4a_7c15;
    for i in 0..48u64 {
        let len = prop.max_len() * (1 + (i % 4) as usize) / 4;
        let mut v = Vec::with_capacity(len);
        while v.len() < len {
            x ^= x << 13;
            x ^= x >> 7;
            x ^= x << 17;
            v.extend_from_slice(&x.to_le_bytes());
        }
        v.truncate(len);
        put(&v);
    }

    // one libFuzzer process per worker, sharing the corpus directory
    let case_timeout = prop.case_timeout();
    let lf_timeout = (case_timeout.as_secs() * 4).max(60);
    struct W {
        child: std::process::Child,
        log: PathBuf,
        stats: PathBuf,
        prefix: String,
    }
    let mut ws = vec![];
    for k in 0..nworkers {
        let log = scratch.join(format!("fuzz{}.log", k));
        let stats = scratch.join(format!("fuzz{}.stats", k));
        let prefix = format!("{}/w{}-", artifacts.display(), k);
        let Ok(logf) = std::fs::File::create(&log) else { continue };
        let mut cmd = Command::new(&bin);
        cmd.arg(&corpus)
            .arg(format!("-runs={}", per_worker))
            .arg(format!("-seed={}", (seed.wrapping_mul(1_000_003).wrapping_add(k) % 4_000_000_000) + 1))
            .arg(format!("-max_len={}", prop.max_len()))
            .arg("-len_control=0")
            .arg(format!("-timeout={}", lf_timeout))
            .arg(format!("-report_slow_units={}", lf_timeout))
            .arg(format!("-max_total_time={}", max_s))
            .arg("-rss_limit_mb=8192")
            .arg("-detect_leaks=0")
            .arg("-print_final_stats=1")
            .arg("-reload=1")
            .arg(format!("-artifact_prefix={}", prefix))
            .env("VERIF_ROOT", verif_root())
            .env("VERIF_FUZZ_STATS", &stats)
            .stdin(Stdio::null())
            .stdout(Stdio::null())
            .stderr(logf);
        sanitizer_env(&mut cmd);
        match cmd.spawn() {
            Ok(child) => ws.push(W { child, log, stats, prefix }),
            Err(e) => inconclusive.push(format!("fuzz stage: worker {} could not be started: {}", k, e)),
        }
    }
    let mut runs = 0u64;
    let mut execs = 0u64;
    let mut passed = 0u64;
    let mut nontrivial = 0u64;
    let mut cov = 0u64;
    let mut ft = 0u64;
    let mut labels: BTreeMap<String, u64> = BTreeMap::new();
    let mut discards: BTreeMap<String, u64> = BTreeMap::new();
    let mut stopped_early = 0u64;
    for w in ws.iter_mut() {
        let st = w.child.wait().ok();
        if !st.map(|s| s.success()).unwrap_or(false) {
            stopped_early += 1;
        }
        if let Ok(s) = std::fs::read_to_string(&w.stats) {
            if let Ok(j) = serde_json::from_str::<J>(&s) {
                runs += j["runs"].as_u64().unwrap_or(0);
                execs += j["execs"].as_u64().unwrap_or(0);
                passed += j["passed"].as_u64().unwrap_or(0);
                nontrivial += j["distinct_nontrivial"].as_u64().unwrap_or(0);
                for (map, key) in [(&mut labels, "labels"), (&mut discards, "discards")] {
                    if let Some(o) = j[key].as_object() {
                        for (k, v) in o {
                            *map.entry(k.clone()).or_default() += v.as_u64().unwrap_or(0);
                        }
                    }
                }
                if let Some(o) = j["known_hits"].as_object() {
                    for (k, v) in o {
                        *known_hits.entry(k.clone()).or_default() += v.as_u64().unwrap_or(0);
                    }
                }
            }
        }
        if let Ok(s) = std::fs::read_to_string(&w.log) {
            for l in s.lines().rev() {
                // "#1234 DONE cov: 5678 ft: 9012 corp: 34/5Kb ..."
                if let (Some(c), Some(f)) = (l.find(" cov: "), l.find(" ft: ")) {
                    let num = |p: usize| l[p..].split_whitespace().nth(1).and_then(|x| x.parse::<u64>().ok()).unwrap_or(0);
                    cov = cov.max(num(c));
                    ft = ft.max(num(f));
                    break;
                }
            }
        }
    }
    let corpus_files = std::fs::read_dir(&corpus).map(|d| d.count() as u64).unwrap_or(0);

    // ---- triage of the saved inputs
    let mut saved: Vec<PathBuf> = std::fs::read_dir(&artifacts).map(|d| d.filter_map(|e| e.ok()).map(|e| e.path()).collect()).unwrap_or_default();
    saved.sort();
    let mut seen_inputs = std::collections::BTreeSet::new();
    let mut reproduced = 0u64;
    let mut unreproduced: Vec<String> = vec![];
    let mut shrunk_sigs = std::collections::BTreeSet::new();
    for a in &saved {
        let fname = a.file_name().map(|s| s.to_string_lossy().to_string()).unwrap_or_default();
        if !["-crash-", "-timeout-", "-oom-", "-leak-"].iter().any(|k| fname.contains(k)) {
            continue;
        }
        let Ok(bytes) = std::fs::read(a) else { continue };
        if !seen_inputs.insert(fnv64(&bytes)) {
            continue;
        }
        let r1 = run_one_isolated(prop, tier, &bytes, scratch, case_timeout);
        let r2 = run_one_isolated(prop, tier, &bytes, scratch, case_timeout);
        let confirmed = match (&r1, &r2) {
            (OneResult::Fail(f), OneResult::Fail(g)) if f.sig == g.sig => Some(r1.clone()),
            (OneResult::Crash(_), OneResult::Crash(_)) => Some(r1.clone()),
            (OneResult::Hang, OneResult::Hang) => Some(OneResult::Hang),
            _ => None,
        };
        let name = a.file_name().map(|s| s.to_string_lossy().to_string()).unwrap_or_default();
        match confirmed {
            Some(kind) => {
                let first_of_kind = shrunk_sigs.insert(match &kind {
                    OneResult::Fail(f) => f.sig.clone(),
                    other => format!("{:?}", other),
                });
                let small = if first_of_kind { shrink_isolated(prop, tier, bytes.clone(), &kind, scratch) } else { bytes.clone() };
                let f = match &kind {
                    OneResult::Fail(f) => match run_one_isolated(prop, tier, &small, scratch, case_timeout) {
                        OneResult::Fail(g) if g.sig == f.sig => g,
                        _ => f.clone(),
                    },
                    OneResult::Crash(sig) => Failure::new("no_crash", &format!("crash:signal{}{}", sig, prop.crash_context(&small)), "the process running the case died (found by the libFuzzer stage)"),
                    _ => Failure::new("terminates", &format!("hang{}", prop.crash_context(&small)), "case does not finish within the watchdog (found by the libFuzzer stage, reproduced twice in isolation)"),
                };
                reproduced += 1;
                if known.iter().any(|k| k.sig == f.sig) {
                    *known_hits.entry(f.sig.clone()).or_default() += 1;
                } else if matches!(kind, OneResult::Hang) && !prop.states_termination() {
                    let p = write_replay(prop, &small, &f, tier);
                    inconclusive.push(format!("fuzz stage: confirmed hang, replay={}", p.display()));
                } else {
                    let p = write_replay(prop, &small, &f, tier);
                    violations.push((p, f));
                }
            }
            None => {
                // not visible to the ordinary build: does the sanitizer build itself reproduce it?
                let (ok1, sig1, tail) = run_fuzz_bin_once(&bin, a, case_timeout * 10);
                let (ok2, sig2, _) = run_fuzz_bin_once(&bin, a, case_timeout * 10);
                if !ok1 && !ok2 && sig1 == sig2 && sig1 != "fuzzbuild:timeout" {
                    reproduced += 1;
                    let f = Failure::new("sanitizer_clean", &sig1, tail);
                    if known.iter().any(|k| k.sig == f.sig) {
                        *known_hits.entry(f.sig.clone()).or_default() += 1;
                    } else {
                        let p = write_replay(prop, &bytes, &f, tier);
                        // mark the replay as one that needs the sanitizer build
                        if let Ok(s) = std::fs::read_to_string(&p) {
                            if let Ok(mut j) = serde_json::from_str::<J>(&s) {
                                j["engine"] = json!("libfuzzer");
                                let _ = std::fs::write(&p, serde_json::to_string_pretty(&j).unwrap());
                            }
                        }
                        violations.push((p, f));
                    }
                } else {
                    // e.g. a per-input timeout on a loaded machine: kept for inspection, no verdict
                    let keep = base.join("unreproduced");
                    let _ = std::fs::create_dir_all(&keep);
                    let _ = std::fs::write(keep.join(format!("{}.hex", name)), hex(&bytes));
                    unreproduced.push(name);
                }
            }
        }
    }
    let _ = std::fs::remove_dir_all(&artifacts);
    if persistent.is_none() {
        let _ = std::fs::remove_dir_all(&corpus);
    }
    for w in &ws {
        let _ = &w.prefix;
    }
    if runs == 0 {
        inconclusive.push("fuzz stage: no input was executed".into());
    }
    FuzzReport {
        evidence: json!({
            "engine": "libFuzzer (cargo-fuzz, AddressSanitizer), one process per worker, shared corpus",
            "status": "ran",
            "runs": runs,
            "real_code_executions": execs,
            "passed": passed,
            "distinct_nontrivial_per_worker_sum": nontrivial,
            "requested_runs_per_worker": per_worker,
            "wall_clock_cap_s": max_s,
            "workers": ws.len(),
            "starting_corpus": seeds,
            "final_corpus_files": corpus_files,
            "coverage_edges": cov,
            "coverage_features": ft,
            "labels": labels,
            "discarded": discards,
            "workers_stopped_by_a_saved_input": stopped_early,
            "saved_inputs": saved.len(),
            "saved_inputs_reproduced": reproduced,
            "saved_inputs_not_reproduced": unreproduced,
            "wall_s": start.elapsed().as_secs_f64(),
        }),
        runs,
        execs,
    }
}
