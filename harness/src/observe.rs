//! Run the real compiler + VM on a lowered program and collect the observation the properties
//! talk about: outcome kind, globals as read by the host under their names, host-call log.

use crate::ir::{lower, Program};
use crate::mval::MV;
use cao_lang::compiler::{compile, CompilationError, Module};
use cao_lang::prelude::*;
use cao_lang::vm::runtime::RuntimeData;
use std::collections::BTreeMap;

#[derive(Default)]
pub struct Host {
    pub log: Vec<(String, Vec<MV>)>,
    pub reentries: u64,
    /// violations observed by the natives themselves (stack balance around run_function)
    pub errors: Vec<String>,
}

#[derive(Clone, Debug)]
pub struct RunCfg {
    pub max_instr: u64,
    pub mem_limit: usize,
    pub stack: usize,
    pub calls: usize,
}

impl Default for RunCfg {
    fn default() -> Self {
        // memory limit far above anything a generated program allocates, so that no collection
        // runs (collections are C02's subject)
        RunCfg { max_instr: 2_000_000, mem_limit: 256 << 20, stack: 256, calls: 256 }
    }
}

#[derive(Debug, Clone)]
pub struct Obs {
    pub outcome: Result<(), String>,
    pub globals: BTreeMap<String, MV>,
    pub log: Vec<(String, Vec<MV>)>,
    pub trace: Vec<Trace>,
    /// Display of the error payload (for checks that look at the message)
    pub detail: Option<String>,
    /// violations reported by the harness natives (stack balance)
    pub host_errors: Vec<String>,
}

pub fn err_kind_name(e: &ExecutionErrorPayload) -> String {
    match e {
        ExecutionErrorPayload::CallStackOverflow => "CallStackOverflow".into(),
        ExecutionErrorPayload::UnexpectedEndOfInput => "UnexpectedEndOfInput".into(),
        ExecutionErrorPayload::ExitCode(_) => "ExitCode".into(),
        ExecutionErrorPayload::InvalidInstruction(_) => "InvalidInstruction".into(),
        ExecutionErrorPayload::InvalidArgument { .. } => "InvalidArgument".into(),
        ExecutionErrorPayload::VarNotFound(_) => "VarNotFound".into(),
        ExecutionErrorPayload::ProcedureNotFound(_) => "ProcedureNotFound".into(),
        ExecutionErrorPayload::Unimplemented => "Unimplemented".into(),
        ExecutionErrorPayload::OutOfMemory => "OutOfMemory".into(),
        ExecutionErrorPayload::MissingArgument => "MissingArgument".into(),
        ExecutionErrorPayload::Timeout => "Timeout".into(),
        ExecutionErrorPayload::TaskFailure { name, error } => format!("TaskFailure({}:{})", name, err_kind_name(error)),
        ExecutionErrorPayload::Stackoverflow => "Stackoverflow".into(),
        ExecutionErrorPayload::BadReturn { .. } => "BadReturn".into(),
        ExecutionErrorPayload::Unhashable => "Unhashable".into(),
        ExecutionErrorPayload::AssertionError(_) => "AssertionError".into(),
        ExecutionErrorPayload::InvalidUpvalue => "InvalidUpvalue".into(),
        ExecutionErrorPayload::NotClosure => "NotClosure".into(),
    }
}

type NR = Result<Value, ExecutionErrorPayload>;

fn n_log(vm: &mut Vm<Host>, x: Value) -> NR {
    vm.auxiliary_data.log.push(("log".into(), vec![MV::from_value(x)]));
    Ok(Value::Nil)
}
fn n_log2(vm: &mut Vm<Host>, a: Value, b: Value) -> NR {
    vm.auxiliary_data.log.push(("log2".into(), vec![MV::from_value(a), MV::from_value(b)]));
    Ok(Value::Nil)
}
fn n_log3(vm: &mut Vm<Host>, a: Value, b: Value, c: Value) -> NR {
    vm.auxiliary_data.log.push(("log3".into(), vec![MV::from_value(a), MV::from_value(b), MV::from_value(c)]));
    Ok(Value::Nil)
}
fn n_id(_vm: &mut Vm<Host>, x: Value) -> NR {
    Ok(x)
}
fn n_mk_str(vm: &mut Vm<Host>, n: i64) -> NR {
    let n = n.clamp(0, 40) as usize;
    let s = vm.init_string(&"x".repeat(n))?;
    Ok(Value::Object(s.into_inner()))
}
fn n_fail(_vm: &mut Vm<Host>) -> NR {
    Err(ExecutionErrorPayload::invalid_argument("boom"))
}
/// heights of the value stack and the call stack (hook H5)
fn heights(vm: &Vm<Host>) -> (usize, usize) {
    use cao_lang::verif::inspect;
    (inspect::value_stack_len(&vm.runtime_data), inspect::call_stack_len(&vm.runtime_data))
}

/// after a successful run_function the stacks must be exactly as before the arguments were pushed
fn reenter(vm: &mut Vm<Host>, who: &str, f: Value, args: &[Value]) -> NR {
    vm.auxiliary_data.reentries += 1;
    let before = heights(vm);
    for a in args {
        vm.stack_push(*a)?;
    }
    let r = vm.run_function(f)?;
    let after = heights(vm);
    if before != after {
        vm.auxiliary_data.errors.push(format!(
            "{}: (value stack, call stack) heights were {:?} before the arguments were pushed and {:?} after run_function returned",
            who, before, after
        ));
    }
    Ok(r)
}

fn n_call0(vm: &mut Vm<Host>, f: Value) -> NR {
    reenter(vm, "call0", f, &[])
}
fn n_call2(vm: &mut Vm<Host>, f: Value, x: Value, y: Value) -> NR {
    reenter(vm, "call2", f, &[x, y])
}
fn n_slen(_vm: &mut Vm<Host>, s: &str) -> NR {
    Ok(Value::Integer(s.len() as i64))
}
fn n_call1(vm: &mut Vm<Host>, f: Value, x: Value) -> NR {
    reenter(vm, "call1", f, &[x])
}

pub fn new_vm(cfg: &RunCfg) -> Vm<'static, Host> {
    let mut vm = Vm::new(Host::default()).expect("vm");
    vm.runtime_data = RuntimeData::new(cfg.mem_limit, cfg.stack, cfg.calls).expect("runtime");
    vm.max_instr = cfg.max_instr;
    vm.register_native_function("log", into_f1(n_log)).unwrap();
    vm.register_native_function("log2", into_f2(n_log2)).unwrap();
    vm.register_native_function("log3", into_f3(n_log3)).unwrap();
    vm.register_native_function("id", into_f1(n_id)).unwrap();
    vm.register_native_function("mk_str", into_f1(n_mk_str)).unwrap();
    vm.register_native_function("fail", n_fail as fn(&mut Vm<Host>) -> NR).unwrap();
    vm.register_native_function("slen", into_f1(n_slen)).unwrap();
    vm.register_native_function("call0", into_f1(n_call0)).unwrap();
    vm.register_native_function("call1", into_f2(n_call1)).unwrap();
    vm.register_native_function("call2", into_f3(n_call2)).unwrap();
    crate::typednatives::register(&mut vm);
    vm
}

pub fn compile_module(m: Module) -> Result<CaoCompiledProgram, CompilationError> {
    compile(m, None)
}

pub fn compile_program(p: &Program) -> Result<CaoCompiledProgram, CompilationError> {
    compile(lower(p), None)
}

pub fn read_globals<A>(vm: &Vm<A>, prog: &CaoCompiledProgram, names: &[String]) -> BTreeMap<String, MV> {
    let mut out = BTreeMap::new();
    for g in names {
        let v = vm.read_var_by_name(g, &prog.variables).unwrap_or(Value::Nil);
        out.insert(g.clone(), MV::from_value(v));
    }
    out
}

pub fn run_on(vm: &mut Vm<Host>, prog: &CaoCompiledProgram, globals: &[String]) -> Obs {
    vm.auxiliary_data.log.clear();
    let r = vm.run(prog);
    let (outcome, trace, detail) = match r {
        Ok(()) => (Ok(()), vec![], None),
        Err(e) => (Err(err_kind_name(&e.payload)), e.trace, Some(format!("{}", e.payload))),
    };
    Obs {
        outcome,
        globals: read_globals(vm, prog, globals),
        log: vm.auxiliary_data.log.clone(),
        trace,
        detail,
        host_errors: vm.auxiliary_data.errors.clone(),
    }
}

pub fn run_vm(prog: &CaoCompiledProgram, globals: &[String], cfg: &RunCfg) -> Obs {
    let mut vm = new_vm(cfg);
    run_on(&mut vm, prog, globals)
}

pub fn log_eq(a: &[(String, Vec<MV>)], b: &[(String, Vec<MV>)]) -> Option<String> {
    for (i, (x, y)) in a.iter().zip(b.iter()).enumerate() {
        if x.0 != y.0 || x.1.len() != y.1.len() || x.1.iter().zip(y.1.iter()).any(|(p, q)| !p.obs_eq(q)) {
            return Some(format!(
                "host call #{}: vm {}({}) vs reference {}({})",
                i,
                x.0,
                x.1.iter().map(|v| v.to_json().to_string()).collect::<Vec<_>>().join(", "),
                y.0,
                y.1.iter().map(|v| v.to_json().to_string()).collect::<Vec<_>>().join(", ")
            ));
        }
    }
    if a.len() != b.len() {
        return Some(format!("vm made {} host calls, reference {}", a.len(), b.len()));
    }
    None
}
