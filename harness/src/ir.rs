//! Typed program IR shared by the generators, the reference semantics and the lowering to
//! `cao_lang::compiler::{Module, Function, Card}`. The IR never looks at bytecode, slots or handles.

use cao_lang::compiler::{
    CallNode, Card, CardBody, CardId, CompositeCard, DynamicJump, ForEach, Function, Module, Repeat, SetVar, StaticJump,
    UnaryExpression,
};
use serde::{Deserialize, Serialize};
use serde_json::{json, Value as J};
use std::rc::Rc;

mod rc_closure {
    use super::ClosureDef;
    use serde::{Deserialize, Deserializer, Serialize, Serializer};
    use std::rc::Rc;
    pub fn serialize<S: Serializer>(v: &Rc<ClosureDef>, s: S) -> Result<S::Ok, S::Error> {
        v.as_ref().serialize(s)
    }
    pub fn deserialize<'de, D: Deserializer<'de>>(d: D) -> Result<Rc<ClosureDef>, D::Error> {
        Ok(Rc::new(ClosureDef::deserialize(d)?))
    }
}

#[derive(Debug, Clone, Copy, PartialEq, Eq, Hash, Serialize, Deserialize)]
pub enum BinOp {
    Add,
    Sub,
    Mul,
    Div,
    Less,
    LessOrEq,
    Equals,
    NotEquals,
    And,
    Or,
    Xor,
}

#[derive(Debug, Clone, Serialize, Deserialize)]
pub enum Expr {
    Nil,
    Int(i64),
    Real(f64),
    Str(String),
    Bin(BinOp, Box<Expr>, Box<Expr>),
    Not(Box<Expr>),
    /// ReadVar; the name may be dotted (`a.b.c` reads properties)
    Var(String),
    IfElse(Box<Expr>, Box<Expr>, Box<Expr>),
    /// static call: (spelled name, resolved function id, args)
    Call(String, usize, Vec<Expr>),
    /// dynamic call: (function expression, args) — args are evaluated first
    DynCall(Box<Expr>, Vec<Expr>),
    CallNative(String, Vec<Expr>),
    /// function value: (spelled name, resolved function id)
    FuncRef(String, usize),
    NativeRef(String),
    Closure(#[serde(with = "rc_closure")] Rc<ClosureDef>),
    CreateTable,
    Array(Vec<Expr>),
    GetProp(Box<Expr>, Box<Expr>),
    /// Get(table, index) -> row {key, value}
    Get(Box<Expr>, Box<Expr>),
    Len(Box<Expr>),
    PopTable(Box<Expr>),
    /// value-form composite: statements, then one value
    Composite(Vec<Stmt>, Box<Expr>),
}

#[derive(Debug, Clone, Serialize, Deserialize)]
pub enum Stmt {
    SetVar(String, Expr),
    SetGlobal(String, Expr),
    IfTrue(Expr, Box<Stmt>),
    IfFalse(Expr, Box<Stmt>),
    IfElse(Expr, Box<Stmt>, Box<Stmt>),
    While(Expr, Box<Stmt>),
    Repeat(Expr, Option<String>, Box<Stmt>),
    ForEach { i: Option<String>, k: Option<String>, v: Option<String>, iterable: Expr, body: Box<Stmt> },
    Return(Expr),
    Abort,
    Comment(String),
    Composite(Vec<Stmt>),
    /// SetProperty(value, table, key)
    SetProp(Expr, Expr, Expr),
    /// AppendTable(value, table)
    Append(Expr, Expr),
    /// a value-producing card in statement position (its value stays on the VM stack)
    ExprStmt(Expr),
}

#[derive(Debug, Clone, Serialize, Deserialize)]
pub struct ClosureDef {
    pub id: usize,
    pub params: Vec<String>,
    pub body: Vec<Stmt>,
}

#[derive(Debug, Clone, Serialize, Deserialize)]
pub struct FuncDef {
    /// index in `Program::funcs`
    pub id: usize,
    pub name: String,
    /// module path (empty = root)
    pub module: Vec<String>,
    pub params: Vec<String>,
    pub body: Vec<Stmt>,
}

#[derive(Debug, Clone, Default, Serialize, Deserialize)]
pub struct ModuleDef {
    pub name: String,
    /// ids into Program::funcs, in declaration order
    pub functions: Vec<usize>,
    pub submodules: Vec<ModuleDef>,
    pub imports: Vec<String>,
}

#[derive(Debug, Clone, Default, Serialize, Deserialize)]
pub struct Program {
    pub funcs: Vec<FuncDef>,
    pub root: ModuleDef,
    /// every global name the program mentions (for the observation)
    pub globals: Vec<String>,
}

impl Program {
    pub fn main_id(&self) -> Option<usize> {
        self.root.functions.iter().copied().find(|f| self.funcs[*f].name == "main")
    }
}

// ---------------------------------------------------------------------------------------------
// lowering
// ---------------------------------------------------------------------------------------------

pub struct Lower {
    pub next_id: u64,
}

impl Lower {
    pub fn new() -> Self {
        Lower { next_id: 1 << 40 }
    }
    fn card(&mut self, body: CardBody) -> Card {
        let id = self.next_id;
        self.next_id += 1;
        Card { id: CardId(id), body }
    }

    pub fn expr(&mut self, e: &Expr) -> Card {
        let body = match e {
            Expr::Nil => CardBody::ScalarNil,
            Expr::Int(i) => CardBody::ScalarInt(*i),
            Expr::Real(r) => CardBody::ScalarFloat(*r),
            Expr::Str(s) => CardBody::StringLiteral(s.clone()),
            Expr::Bin(op, a, b) => {
                let ab = Box::new([self.expr(a), self.expr(b)]);
                match op {
                    BinOp::Add => CardBody::Add(ab),
                    BinOp::Sub => CardBody::Sub(ab),
                    BinOp::Mul => CardBody::Mul(ab),
                    BinOp::Div => CardBody::Div(ab),
                    BinOp::Less => CardBody::Less(ab),
                    BinOp::LessOrEq => CardBody::LessOrEq(ab),
                    BinOp::Equals => CardBody::Equals(ab),
                    BinOp::NotEquals => CardBody::NotEquals(ab),
                    BinOp::And => CardBody::And(ab),
                    BinOp::Or => CardBody::Or(ab),
                    BinOp::Xor => CardBody::Xor(ab),
                }
            }
            Expr::Not(a) => CardBody::Not(UnaryExpression::new(self.expr(a))),
            Expr::Var(n) => CardBody::ReadVar(n.clone()),
            Expr::IfElse(c, t, f) => CardBody::IfElse(Box::new([self.expr(c), self.expr(t), self.expr(f)])),
            Expr::Call(name, _, args) => CardBody::Call(Box::new(StaticJump {
                args: args.iter().map(|a| self.expr(a)).collect::<Vec<_>>().into(),
                function_name: name.clone(),
            })),
            Expr::DynCall(f, args) => {
                // keep the evaluation order of the card ids stable: args first, then function
                let args: Vec<Card> = args.iter().map(|a| self.expr(a)).collect();
                let function = self.expr(f);
                CardBody::DynamicCall(Box::new(DynamicJump { args: args.into(), function }))
            }
            Expr::CallNative(name, args) => CardBody::CallNative(Box::new(CallNode {
                name: name.clone(),
                args: args.iter().map(|a| self.expr(a)).collect::<Vec<_>>().into(),
            })),
            Expr::FuncRef(name, _) => CardBody::Function(name.clone()),
            Expr::NativeRef(name) => CardBody::NativeFunction(name.clone()),
            Expr::Closure(def) => CardBody::Closure(Box::new(Function {
                arguments: def.params.clone(),
                cards: def.body.iter().map(|s| self.stmt(s)).collect(),
            })),
            Expr::CreateTable => CardBody::CreateTable,
            Expr::Array(items) => CardBody::Array(items.iter().map(|a| self.expr(a)).collect()),
            Expr::GetProp(t, k) => CardBody::GetProperty(Box::new([self.expr(t), self.expr(k)])),
            Expr::Get(t, i) => CardBody::Get(Box::new([self.expr(t), self.expr(i)])),
            Expr::Len(a) => CardBody::Len(UnaryExpression::new(self.expr(a))),
            Expr::PopTable(a) => CardBody::PopTable(UnaryExpression::new(self.expr(a))),
            Expr::Composite(stmts, val) => {
                let mut cards: Vec<Card> = stmts.iter().map(|s| self.stmt(s)).collect();
                cards.push(self.expr(val));
                CardBody::CompositeCard(Box::new(CompositeCard { ty: "value".into(), cards }))
            }
        };
        self.card(body)
    }

    pub fn stmt(&mut self, s: &Stmt) -> Card {
        let body = match s {
            Stmt::SetVar(n, e) => CardBody::SetVar(Box::new(SetVar { name: n.clone(), value: self.expr(e) })),
            Stmt::SetGlobal(n, e) => CardBody::SetGlobalVar(Box::new(SetVar { name: n.clone(), value: self.expr(e) })),
            Stmt::IfTrue(c, b) => CardBody::IfTrue(Box::new([self.expr(c), self.stmt(b)])),
            Stmt::IfFalse(c, b) => CardBody::IfFalse(Box::new([self.expr(c), self.stmt(b)])),
            Stmt::IfElse(c, t, f) => CardBody::IfElse(Box::new([self.expr(c), self.stmt(t), self.stmt(f)])),
            Stmt::While(c, b) => CardBody::While(Box::new([self.expr(c), self.stmt(b)])),
            Stmt::Repeat(n, i, b) => CardBody::Repeat(Box::new(Repeat { i: i.clone(), n: self.expr(n), body: self.stmt(b) })),
            Stmt::ForEach { i, k, v, iterable, body } => CardBody::ForEach(Box::new(ForEach {
                i: i.clone(),
                k: k.clone(),
                v: v.clone(),
                iterable: Box::new(self.expr(iterable)),
                body: Box::new(self.stmt(body)),
            })),
            Stmt::Return(e) => CardBody::Return(UnaryExpression::new(self.expr(e))),
            Stmt::Abort => CardBody::Abort,
            Stmt::Comment(c) => CardBody::Comment(c.clone()),
            Stmt::Composite(stmts) => CardBody::CompositeCard(Box::new(CompositeCard {
                ty: "block".into(),
                cards: stmts.iter().map(|s| self.stmt(s)).collect(),
            })),
            Stmt::SetProp(v, t, k) => CardBody::SetProperty(Box::new([self.expr(v), self.expr(t), self.expr(k)])),
            Stmt::Append(v, t) => CardBody::AppendTable(Box::new([self.expr(v), self.expr(t)])),
            Stmt::ExprStmt(e) => return self.expr(e),
        };
        self.card(body)
    }

    pub fn function(&mut self, f: &FuncDef) -> Function {
        Function { arguments: f.params.clone(), cards: f.body.iter().map(|s| self.stmt(s)).collect() }
    }

    pub fn module(&mut self, p: &Program, m: &ModuleDef) -> Module {
        Module {
            submodules: m.submodules.iter().map(|s| (s.name.clone(), self.module(p, s))).collect(),
            functions: m.functions.iter().map(|f| (p.funcs[*f].name.clone(), self.function(&p.funcs[*f]))).collect(),
            imports: m.imports.clone(),
        }
    }
}

pub fn lower(p: &Program) -> Module {
    let mut l = Lower::new();
    l.module(p, &p.root)
}

// ---------------------------------------------------------------------------------------------
// pretty printing (for replay files / evidence samples)
// ---------------------------------------------------------------------------------------------

pub fn expr_str(e: &Expr) -> String {
    match e {
        Expr::Nil => "nil".into(),
        Expr::Int(i) => format!("{}", i),
        Expr::Real(r) => format!("{:?}", r),
        Expr::Str(s) => format!("{:?}", s),
        Expr::Bin(op, a, b) => format!("({} {:?} {})", expr_str(a), op, expr_str(b)),
        Expr::Not(a) => format!("!{}", expr_str(a)),
        Expr::Var(n) => n.clone(),
        Expr::IfElse(c, t, f) => format!("(if {} then {} else {})", expr_str(c), expr_str(t), expr_str(f)),
        Expr::Call(n, _, args) => format!("{}({})", n, args.iter().map(expr_str).collect::<Vec<_>>().join(", ")),
        Expr::DynCall(f, args) => format!("dyn[{}]({})", expr_str(f), args.iter().map(expr_str).collect::<Vec<_>>().join(", ")),
        Expr::CallNative(n, args) => format!("native:{}({})", n, args.iter().map(expr_str).collect::<Vec<_>>().join(", ")),
        Expr::FuncRef(n, _) => format!("&{}", n),
        Expr::NativeRef(n) => format!("&native:{}", n),
        Expr::Closure(d) => format!("closure#{}({}){{ {} }}", d.id, d.params.join(","), d.body.iter().map(stmt_str).collect::<Vec<_>>().join("; ")),
        Expr::CreateTable => "{}".into(),
        Expr::Array(items) => format!("[{}]", items.iter().map(expr_str).collect::<Vec<_>>().join(", ")),
        Expr::GetProp(t, k) => format!("{}[{}]", expr_str(t), expr_str(k)),
        Expr::Get(t, i) => format!("row({}, {})", expr_str(t), expr_str(i)),
        Expr::Len(a) => format!("len({})", expr_str(a)),
        Expr::PopTable(a) => format!("pop({})", expr_str(a)),
        Expr::Composite(s, v) => format!("{{ {}; => {} }}", s.iter().map(stmt_str).collect::<Vec<_>>().join("; "), expr_str(v)),
    }
}

pub fn stmt_str(s: &Stmt) -> String {
    match s {
        Stmt::SetVar(n, e) => format!("{} = {}", n, expr_str(e)),
        Stmt::SetGlobal(n, e) => format!("global {} = {}", n, expr_str(e)),
        Stmt::IfTrue(c, b) => format!("if {} {{ {} }}", expr_str(c), stmt_str(b)),
        Stmt::IfFalse(c, b) => format!("unless {} {{ {} }}", expr_str(c), stmt_str(b)),
        Stmt::IfElse(c, t, f) => format!("if {} {{ {} }} else {{ {} }}", expr_str(c), stmt_str(t), stmt_str(f)),
        Stmt::While(c, b) => format!("while {} {{ {} }}", expr_str(c), stmt_str(b)),
        Stmt::Repeat(n, i, b) => format!("repeat {} as {:?} {{ {} }}", expr_str(n), i, stmt_str(b)),
        Stmt::ForEach { i, k, v, iterable, body } => {
            format!("foreach i={:?} k={:?} v={:?} in {} {{ {} }}", i, k, v, expr_str(iterable), stmt_str(body))
        }
        Stmt::Return(e) => format!("return {}", expr_str(e)),
        Stmt::Abort => "abort".into(),
        Stmt::Comment(_) => "#".into(),
        Stmt::Composite(stmts) => format!("{{ {} }}", stmts.iter().map(stmt_str).collect::<Vec<_>>().join("; ")),
        Stmt::SetProp(v, t, k) => format!("{}[{}] := {}", expr_str(t), expr_str(k), expr_str(v)),
        Stmt::Append(v, t) => format!("append({}, {})", expr_str(t), expr_str(v)),
        Stmt::ExprStmt(e) => format!("<{}>", expr_str(e)),
    }
}

pub fn program_json(p: &Program) -> J {
    fn module_json(p: &Program, m: &ModuleDef) -> J {
        json!({
            "imports": m.imports,
            "functions": m.functions.iter().map(|f| {
                let f = &p.funcs[*f];
                json!({"name": f.name, "params": f.params, "body": f.body.iter().map(stmt_str).collect::<Vec<_>>()})
            }).collect::<Vec<_>>(),
            "submodules": m.submodules.iter().map(|s| json!({"name": s.name, "module": module_json(p, s)})).collect::<Vec<_>>(),
        })
    }
    module_json(p, &p.root)
}
