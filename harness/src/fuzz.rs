//! Entry point for the libFuzzer targets in /verif/fuzz: the same decoders and oracles as the
//! proptest engine, driven by coverage-guided mutation.

use crate::engine::{load_known, run_guarded, Known, Tier, Verdict};
use std::collections::{BTreeMap, BTreeSet};
use std::sync::{Mutex, OnceLock};

struct State {
    prop: Box<dyn crate::engine::Property>,
    known: Vec<Known>,
    stats_file: Option<std::path::PathBuf>,
}

// libFuzzer calls the target from one thread
struct Shared(State);
unsafe impl Sync for Shared {}
unsafe impl Send for Shared {}

static STATE: OnceLock<Shared> = OnceLock::new();

#[derive(Default)]
struct Stats {
    runs: u64,
    execs: u64,
    passed: u64,
    nontrivial: BTreeSet<u64>,
    labels: BTreeMap<String, u64>,
    discards: BTreeMap<String, u64>,
    known_hits: BTreeMap<String, u64>,
}

static STATS: Mutex<Option<Stats>> = Mutex::new(None);

fn flush(path: &std::path::Path, s: &Stats) {
    let j = serde_json::json!({
        "runs": s.runs,
        "execs": s.execs,
        "passed": s.passed,
        "distinct_nontrivial": s.nontrivial.len(),
        "labels": s.labels,
        "discards": s.discards,
        "known_hits": s.known_hits,
    });
    let tmp = path.with_extension("tmp");
    if std::fs::write(&tmp, j.to_string()).is_ok() {
        let _ = std::fs::rename(&tmp, path);
    }
}

/// Runs one input. A failure whose signature is not listed as a known finding aborts (libFuzzer
/// then saves the input); known findings are tolerated so that a campaign does not rediscover one
/// crash forever. What the inputs decoded to is counted in the file named by VERIF_FUZZ_STATS.
pub fn run_one(id: &'static str, data: &[u8]) {
    let st = &STATE
        .get_or_init(|| {
            crate::engine::install_quiet_panic_hook();
            install_exit_flush();
            Shared(State {
                prop: crate::props::by_id(id).expect("property"),
                known: load_known(id),
                stats_file: std::env::var_os("VERIF_FUZZ_STATS").map(Into::into),
            })
        })
        .0;
    if data.len() > st.prop.max_len() {
        return;
    }
    let out = run_guarded(st.prop.as_ref(), data, Tier::Quick);
    let mut failure = None;
    {
        let mut g = STATS.lock().unwrap_or_else(|e| e.into_inner());
        let s = g.get_or_insert_with(Stats::default);
        s.runs += 1;
        s.execs += out.execs;
        for l in &out.labels {
            *s.labels.entry(l.clone()).or_default() += 1;
        }
        match out.verdict {
            Verdict::Pass => {
                s.passed += 1;
                if out.nontrivial && s.nontrivial.len() < 2_000_000 {
                    s.nontrivial.insert(out.fingerprint);
                }
            }
            Verdict::Discard(w) => *s.discards.entry(w.to_string()).or_default() += 1,
            Verdict::Fail(f) => {
                if st.known.iter().any(|k| k.sig == f.sig) {
                    *s.known_hits.entry(f.sig.clone()).or_default() += 1;
                } else {
                    failure = Some(f);
                }
            }
        }
        if let Some(p) = &st.stats_file {
            if failure.is_some() || s.runs % 256 == 0 {
                flush(p, s);
            }
        }
    }
    if let Some(f) = failure {
        // restore the default hook so the message is printed, then abort the way libFuzzer expects
        let _ = std::panic::take_hook();
        eprintln!("VIOLATION property={} clause={} sig={}\n{}", id, f.clause, f.sig, f.detail);
        std::process::abort();
    }
}

/// called by the targets' `atexit`-less shutdown path: libFuzzer ends a `-runs=N` campaign with
/// `exit()`, so the last partial block of counters is flushed from a libc atexit handler
pub fn install_exit_flush() {
    extern "C" fn at_exit() {
        if let Some(st) = STATE.get() {
            if let Some(p) = &st.0.stats_file {
                if let Ok(g) = STATS.try_lock() {
                    if let Some(s) = g.as_ref() {
                        flush(p, s);
                    }
                }
            }
        }
    }
    unsafe {
        libc::atexit(at_exit);
    }
}
