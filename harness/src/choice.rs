//! The choice stream: the ONLY source of randomness for every generator.
//!
//! A generator is a deterministic function of a byte string. Draws are mapped monotonically onto
//! their range (`(x * n) >> bits`, never `%`) and an exhausted stream yields 0, which every
//! generator treats as its simplest alternative. proptest shrinks the byte vector (delete chunks,
//! lower bytes), which therefore shrinks whole programs / histories as one value, and libFuzzer
//! feeds the very same decoders.

pub struct Choices<'a> {
    data: &'a [u8],
    pos: usize,
}

impl<'a> Choices<'a> {
    pub fn new(data: &'a [u8]) -> Self {
        Self { data, pos: 0 }
    }

    pub fn exhausted(&self) -> bool {
        self.pos >= self.data.len()
    }

    pub fn consumed(&self) -> usize {
        self.pos
    }

    #[inline]
    pub fn byte(&mut self) -> u8 {
        if self.pos < self.data.len() {
            let b = self.data[self.pos];
            self.pos += 1;
            b
        } else {
            0
        }
    }

    /// uniform-ish draw from `0..n` (n >= 1), monotone in the consumed bytes
    pub fn draw(&mut self, n: usize) -> usize {
        if n <= 1 {
            return 0;
        }
        if n <= 256 {
            (self.byte() as usize * n) >> 8
        } else if n <= 65536 {
            let x = ((self.byte() as usize) << 8) | self.byte() as usize;
            (x * n) >> 16
        } else {
            let mut x: u64 = 0;
            for _ in 0..4 {
                x = (x << 8) | self.byte() as u64;
            }
            ((x as u128 * n as u128) >> 32) as usize
        }
    }

    /// inclusive range
    pub fn range(&mut self, lo: i64, hi: i64) -> i64 {
        debug_assert!(hi >= lo);
        lo + self.draw((hi - lo + 1) as usize) as i64
    }

    pub fn bool(&mut self) -> bool {
        self.byte() >= 128
    }

    /// true with probability ~ num/256; an exhausted stream gives false
    pub fn chance(&mut self, num: u32) -> bool {
        let b = self.byte() as u32;
        b >= 256 - num.min(256)
    }

    /// pick an index by weight; weight order defines the shrink order (index 0 simplest)
    pub fn weighted(&mut self, weights: &[u32]) -> usize {
        let total: u32 = weights.iter().sum();
        if total == 0 {
            return 0;
        }
        let x = self.draw(total as usize) as u32;
        let mut acc = 0;
        for (i, w) in weights.iter().enumerate() {
            acc += *w;
            if x < acc {
                return i;
            }
        }
        weights.len() - 1
    }

    pub fn pick<'b, T>(&mut self, items: &'b [T]) -> &'b T {
        &items[self.draw(items.len())]
    }

    pub fn u32(&mut self) -> u32 {
        let mut x = 0u32;
        for _ in 0..4 {
            x = (x << 8) | self.byte() as u32;
        }
        x
    }

    pub fn u64(&mut self) -> u64 {
        let mut x = 0u64;
        for _ in 0..8 {
            x = (x << 8) | self.byte() as u64;
        }
        x
    }
}

pub fn hex(bytes: &[u8]) -> String {
    let mut s = String::with_capacity(bytes.len() * 2);
    for b in bytes {
        s.push_str(&format!("{:02x}", b));
    }
    s
}

pub fn unhex(s: &str) -> Vec<u8> {
    let s = s.trim();
    let mut out = Vec::with_capacity(s.len() / 2);
    let b = s.as_bytes();
    let mut i = 0;
    while i + 1 < b.len() {
        let h = (b[i] as char).to_digit(16).unwrap_or(0);
        let l = (b[i + 1] as char).to_digit(16).unwrap_or(0);
        out.push((h * 16 + l) as u8);
        i += 2;
    }
    out
}

/// FNV-1a 64 for fingerprints (deterministic across runs, unlike std's RandomState)
pub fn fnv64(data: &[u8]) -> u64 {
    let mut h: u64 = 0xcbf29ce484222325;
    for b in data {
        h ^= *b as u64;
        h = h.wrapping_mul(0x100000001b3);
    }
    h
}
