//! Well-scoped program generator (shared by C01, C02, C03, C05, C06, C09, C10, C11, C15, C17, C18).
//!
//! Well-scopedness is established by construction (no rejection sampling):
//!  1. value slots are filled from the `Expr` grammar only;
//!  2. a NEW local (first SetVar of a name, hidden locals of Array) is only generated as a direct
//!     statement of a function / closure / Repeat / ForEach body (possibly through a block
//!     composite), never under If/While and never while expression temporaries are pending;
//!  3. static and dynamic calls pass exactly the callee's arity;
//!  4. loops terminate by construction (literal repeat counts, dedicated decreasing while
//!     counters, acyclic call graph), the reference interpreter has a fuel on top.
//! Dynamic side conditions are judged by the reference interpreter (discard), never guessed.

use crate::choice::Choices;
use crate::ir::*;
use std::collections::BTreeSet;
use std::rc::Rc;

#[derive(Clone, Debug)]
pub struct GenCfg {
    pub max_funcs: usize,
    pub budget: i32,
    pub closures: u32,   // weight of closure expressions (0 = never)
    pub tables: u32,     // weight of table expressions / statements
    pub natives: u32,    // weight of native calls (log/id)
    pub reentry: u32,    // weight of call0/call1
    pub expr_stmt: u32,  // weight of value cards in statement position
    pub errors: u32,     // weight of deliberately ill-typed operations
    pub wide_globals: bool,
    pub return_in_main: bool,
    pub abort: bool,
    pub closure_bias: bool, // C06: almost every function creates and uses closures
    pub submodule: bool,    // some functions live in a submodule `m`
}

impl Default for GenCfg {
    fn default() -> Self {
        GenCfg {
            max_funcs: 5,
            budget: 110,
            closures: 3,
            tables: 4,
            natives: 6,
            reentry: 1,
            expr_stmt: 1,
            errors: 1,
            wide_globals: true,
            return_in_main: true,
            abort: true,
            closure_bias: false,
            submodule: true,
        }
    }
}

#[derive(Clone, Copy, Debug, PartialEq)]
enum Ty {
    Any,
    Num,
    Str,
    Table,
    Func(usize),
}

const LOCALS: [&str; 6] = ["a", "b", "c", "d", "e", "x"];
const INTS: [i64; 14] = [0, 1, 2, 3, -1, 5, 7, 10, -4, 100, 255, 1 << 31, (1 << 53) + 1, -(1 << 40)];
const REALS: [f64; 8] = [0.5, 1.0, 2.0, -1.5, 3.25, 1e10, 0.1, 100.0];
const STRS: [&str; 7] = ["", "a", "key", "value", "winnie", "é", "0"];
const KEYS: [&str; 4] = ["k", "key", "value", "n"];

struct Sig {
    name: String,
    arity: usize,
    /// placed in the submodule `m` instead of the root module
    in_sub: bool,
}

pub const SINK: &str = "sink_";

/// `log(e)` as a statement that does not leave its (nil) result on the VM stack: the result is
/// stored into a dummy global
pub fn log_stmt(e: Expr) -> Stmt {
    Stmt::SetGlobal(SINK.into(), Expr::CallNative("log".into(), vec![e]))
}

struct FnCtx {
    /// lexical scopes of the function being generated (innermost last)
    scopes: Vec<Vec<(String, Ty)>>,
    /// names visible from enclosing functions (closures only)
    outer: Vec<(String, Ty)>,
    is_main: bool,
    is_closure: bool,
}

pub struct G<'a, 'c> {
    c: &'a mut Choices<'c>,
    cfg: GenCfg,
    budget: i32,
    sigs: Vec<Sig>,
    cur_fn: usize,
    readable_globals: Vec<(String, Ty)>,
    all_globals: BTreeSet<String>,
    next_closure: usize,
    next_while: usize,
    expr_stmts: u32,
    /// how many deliberately failing constructs this program may still contain
    error_budget: u32,
}

pub fn gen_program(c: &mut Choices, cfg: &GenCfg) -> Program {
    let nfuncs = 1 + c.draw(cfg.max_funcs);
    let mut sigs = vec![Sig { name: "main".into(), arity: 0, in_sub: false }];
    for i in 1..nfuncs {
        sigs.push(Sig { name: format!("f{}", i), arity: c.draw(4), in_sub: false });
    }
    if cfg.submodule && nfuncs > 1 && c.chance(140) {
        for s in sigs.iter_mut().skip(1) {
            s.in_sub = c.bool();
        }
    }
    let mut g = G {
        c,
        cfg: cfg.clone(),
        budget: cfg.budget,
        sigs,
        cur_fn: 0,
        readable_globals: vec![],
        all_globals: BTreeSet::new(),
        next_closure: 0,
        next_while: 0,
        expr_stmts: 0,
        error_budget: 0,
    };
    g.error_budget = if cfg.errors > 0 && g.c.chance(40) { 1 } else { 0 };
    // avoid switch for the known finding "statement-level values stay on the VM stack": three
    // quarters of the programs contain no bare value card in statement position at all
    if !g.c.chance(64) {
        g.cfg.expr_stmt = 0;
    }
    g.all_globals.insert(SINK.into());
    let mut funcs = vec![];
    // callee bodies get their share of the budget first so that main is not the only real body
    let per = (cfg.budget / nfuncs as i32).max(12);
    // prelude globals ("initial host inputs")
    let mut prelude = vec![];
    let nin = g.c.draw(4);
    for i in 0..nin {
        let name = format!("in{}", i);
        let (e, ty) = g.literal();
        prelude.push(Stmt::SetGlobal(name.clone(), e));
        g.readable_globals.push((name.clone(), ty));
        g.all_globals.insert(name);
    }
    if cfg.wide_globals && g.c.chance(12) {
        let n = 13 + g.c.draw(28);
        for i in 0..n {
            let name = format!("w{}", i);
            prelude.push(Stmt::SetGlobal(name.clone(), Expr::Int(i as i64)));
            g.readable_globals.push((name.clone(), Ty::Num));
            g.all_globals.insert(name);
        }
    }
    for id in 0..nfuncs {
        g.cur_fn = id;
        g.budget = per;
        let arity = g.sigs[id].arity;
        let params: Vec<String> = (0..arity).map(|i| format!("p{}", i)).collect();
        let mut ctx = FnCtx { scopes: vec![vec![]], outer: vec![], is_main: id == 0, is_closure: false };
        // declared order p0..pk; binding convention is the VM's business
        for p in &params {
            ctx.scopes[0].push((p.clone(), Ty::Any));
        }
        let mut body = if id == 0 { prelude.clone() } else { vec![] };
        let n = g.c.draw(9);
        g.gen_block(&mut ctx, n, true, &mut body);
        if id != 0 && g.c.chance(170) {
            let (e, _) = g.expr(&mut ctx, Ty::Any, 0);
            body.push(Stmt::Return(e));
        }
        let module = if g.sigs[id].in_sub { vec!["m".to_string()] } else { vec![] };
        funcs.push(FuncDef { id, name: g.sigs[id].name.clone(), module, params, body });
    }
    let sub_fns: Vec<usize> = (0..nfuncs).filter(|i| g.sigs[*i].in_sub).collect();
    let mut root = ModuleDef { name: String::new(), functions: (0..nfuncs).filter(|i| !g.sigs[*i].in_sub).collect(), submodules: vec![], imports: vec![] };
    if !sub_fns.is_empty() {
        root.submodules.push(ModuleDef { name: "m".into(), functions: sub_fns, submodules: vec![], imports: vec![] });
    }
    Program { funcs, root, globals: g.all_globals.iter().cloned().collect() }
}

impl<'a, 'c> G<'a, 'c> {
    /// how the current function names function `j` in a call card
    fn spelled(&mut self, j: usize) -> String {
        let caller_in_sub = self.sigs[self.cur_fn].in_sub;
        if self.sigs[j].in_sub {
            if caller_in_sub && self.c.bool() {
                self.sigs[j].name.clone() // own module
            } else {
                format!("m.{}", self.sigs[j].name) // absolute path
            }
        } else {
            self.sigs[j].name.clone() // root function: its absolute path is its name
        }
    }

    fn literal(&mut self) -> (Expr, Ty) {
        match self.c.weighted(&[3, 8, 3, 3]) {
            0 => (Expr::Nil, Ty::Any),
            1 => {
                if self.c.chance(60) {
                    (Expr::Int(*self.c.pick(&INTS)), Ty::Num)
                } else {
                    (Expr::Int(self.c.range(0, 9)), Ty::Num)
                }
            }
            2 => (Expr::Real(*self.c.pick(&REALS)), Ty::Num),
            _ => {
                if self.c.chance(12) {
                    // lengths around the boundaries of every plausible length encoding (one byte,
                    // 7-bit groups, a fixed-size read window), and now and then a really long one
                    let len = match self.c.draw(8) {
                        0 => 126 + self.c.draw(5),
                        1 => 250 + self.c.draw(10),
                        2 => 16382 + self.c.draw(4),
                        3 => 62 + self.c.draw(5),
                        _ => 250 + self.c.draw(120),
                    };
                    (Expr::Str("L".repeat(len)), Ty::Str)
                } else {
                    (Expr::Str(self.c.pick(&STRS).to_string()), Ty::Str)
                }
            }
        }
    }

    fn visible(&self, ctx: &FnCtx) -> Vec<(String, Ty)> {
        let mut out: Vec<(String, Ty)> = vec![];
        for s in ctx.scopes.iter().rev() {
            for (n, t) in s.iter().rev() {
                if !out.iter().any(|(on, _)| on == n) {
                    out.push((n.clone(), *t));
                }
            }
        }
        for (n, t) in ctx.outer.iter() {
            if !out.iter().any(|(on, _)| on == n) {
                out.push((n.clone(), *t));
            }
        }
        out
    }

    fn vars_of(&self, ctx: &FnCtx, want: Ty) -> Vec<String> {
        let mut out: Vec<String> = self
            .visible(ctx)
            .into_iter()
            .filter(|(_, t)| match want {
                Ty::Any => true,
                Ty::Func(a) => *t == Ty::Func(a),
                Ty::Table => *t == Ty::Table,
                w => *t == w || *t == Ty::Any,
            })
            .map(|(n, _)| n)
            .collect();
        if !matches!(want, Ty::Func(_)) {
            for (n, t) in &self.readable_globals {
                let ok = match want {
                    Ty::Any => true,
                    w => *t == w,
                };
                if ok && !out.contains(n) && out.len() < 12 {
                    out.push(n.clone());
                }
            }
        }
        out
    }

    fn set_ty(&mut self, ctx: &mut FnCtx, name: &str, ty: Ty) -> bool {
        for s in ctx.scopes.iter_mut().rev() {
            for (n, t) in s.iter_mut().rev() {
                if n == name {
                    *t = ty;
                    return true;
                }
            }
        }
        for (n, t) in ctx.outer.iter_mut() {
            if n == name {
                *t = ty;
                return true;
            }
        }
        false
    }

    fn leaf(&mut self, ctx: &mut FnCtx, want: Ty) -> (Expr, Ty) {
        let vars = self.vars_of(ctx, want);
        let use_var = !vars.is_empty() && self.c.chance(150);
        if use_var {
            let v = self.c.pick(&vars).clone();
            let ty = self.visible(ctx).iter().find(|(n, _)| *n == v).map(|(_, t)| *t).or_else(|| self.readable_globals.iter().find(|(n, _)| *n == v).map(|(_, t)| *t)).unwrap_or(Ty::Any);
            return (Expr::Var(v), ty);
        }
        match want {
            Ty::Num => {
                if self.c.chance(60) {
                    (Expr::Real(*self.c.pick(&REALS)), Ty::Num)
                } else if self.c.chance(50) {
                    (Expr::Int(*self.c.pick(&INTS)), Ty::Num)
                } else {
                    (Expr::Int(self.c.range(0, 9)), Ty::Num)
                }
            }
            Ty::Str => (Expr::Str(self.c.pick(&STRS).to_string()), Ty::Str),
            Ty::Table => (Expr::CreateTable, Ty::Table),
            Ty::Func(a) => self.func_value(ctx, a, 9),
            Ty::Any => self.literal(),
        }
    }

    /// an expression that evaluates to a callable of the given arity
    fn func_value(&mut self, ctx: &mut FnCtx, arity: usize, depth: u32) -> (Expr, Ty) {
        let vars = self.vars_of(ctx, Ty::Func(arity));
        let callees: Vec<usize> = (self.cur_fn + 1..self.sigs.len()).filter(|j| self.sigs[*j].arity == arity).collect();
        let native: Option<&str> = match arity {
            1 => Some("id"),
            2 => Some("log2"),
            _ => None,
        };
        let w = [
            if vars.is_empty() { 0 } else { 6 },
            if callees.is_empty() { 0 } else { 5 },
            if self.cfg.closures > 0 && depth < 3 { 5 } else { 0 },
            if native.is_some() && self.cfg.natives > 0 { 1 } else { 0 },
        ];
        if w.iter().sum::<u32>() == 0 {
            // nothing callable of that arity exists: make a trivial closure
            return (self.closure(ctx, arity, 9), Ty::Func(arity));
        }
        match self.c.weighted(&w) {
            0 => (Expr::Var(self.c.pick(&vars).clone()), Ty::Func(arity)),
            1 => {
                let j = *self.c.pick(&callees);
                (Expr::FuncRef(self.spelled(j), j), Ty::Func(arity))
            }
            2 => (self.closure(ctx, arity, depth + 1), Ty::Func(arity)),
            _ => (Expr::NativeRef(native.unwrap().to_string()), Ty::Func(arity)),
        }
    }

    fn closure(&mut self, ctx: &mut FnCtx, arity: usize, depth: u32) -> Expr {
        let id = self.next_closure;
        self.next_closure += 1;
        let params: Vec<String> = (0..arity).map(|i| format!("q{}", i)).collect();
        let mut inner = FnCtx { scopes: vec![vec![]], outer: self.visible(ctx), is_main: false, is_closure: true };
        for p in &params {
            inner.scopes[0].push((p.clone(), Ty::Any));
        }
        let mut body = vec![];
        // a unique tag first, so "ran the wrong body" is directly visible in the host log
        body.push(log_stmt(Expr::Int(1000 + id as i64)));
        if self.cfg.closure_bias {
            // make the closure actually use what it captures: read, and often write, a variable
            // of the enclosing function(s)
            let outer: Vec<String> = inner.outer.iter().map(|(n, _)| n.clone()).filter(|n| !n.is_empty()).collect();
            if !outer.is_empty() && self.c.chance(220) {
                // `outer` is ordered innermost first: prefer the variables of the closest scopes,
                // and often capture two of them (two captured locals of one scope are closed by
                // two consecutive scope-end instructions)
                let near = outer.len().min(3);
                let v = outer[self.c.draw(near)].clone();
                body.push(log_stmt(Expr::Var(v.clone())));
                if outer.len() >= 2 && self.c.chance(140) {
                    let w = outer[self.c.draw(near.max(2).min(outer.len()))].clone();
                    if w != v {
                        body.push(log_stmt(Expr::Var(w)));
                    }
                }
                if self.c.chance(150) {
                    let delta = Expr::Int(1 + self.c.draw(3) as i64);
                    body.push(Stmt::SetVar(v.clone(), Expr::Bin(BinOp::Add, Box::new(Expr::Var(v.clone())), Box::new(delta))));
                    for (n, t) in inner.outer.iter_mut() {
                        if *n == v {
                            *t = Ty::Num;
                        }
                    }
                }
            }
        }
        let n = if depth >= 9 { 0 } else { self.c.draw(4) };
        self.gen_block(&mut inner, n, true, &mut body);
        if self.c.chance(190) {
            let (e, _) = self.expr(&mut inner, Ty::Any, depth.min(4) + 1);
            body.push(Stmt::Return(e));
        }
        // types of captured variables may have been changed by writes in the body
        for (n, t) in inner.outer.iter() {
            self.set_ty(ctx, n, *t);
        }
        Expr::Closure(Rc::new(ClosureDef { id, params, body }))
    }

    fn args(&mut self, ctx: &mut FnCtx, n: usize, depth: u32) -> Vec<Expr> {
        (0..n).map(|_| self.expr(ctx, Ty::Any, depth + 1).0).collect()
    }

    pub fn expr(&mut self, ctx: &mut FnCtx, want: Ty, depth: u32) -> (Expr, Ty) {
        self.budget -= 1;
        if self.budget <= 0 || depth >= 4 || self.c.exhausted() {
            return self.leaf(ctx, want);
        }
        if let Ty::Func(a) = want {
            return self.func_value(ctx, a, depth);
        }
        let callees: Vec<usize> = (self.cur_fn + 1..self.sigs.len()).collect();
        let tables = self.cfg.tables;
        let has_table_var = !self.vars_of(ctx, Ty::Table).is_empty();
        // index 0 = simplest alternative
        let w: [u32; 14] = [
            10,                                                  // 0 leaf
            if want == Ty::Str || want == Ty::Table { 0 } else { 9 }, // 1 arithmetic
            if want == Ty::Str || want == Ty::Table { 0 } else { 5 }, // 2 comparison
            if want == Ty::Str || want == Ty::Table { 0 } else { 3 }, // 3 logic / not
            2,                                                   // 4 if-else value
            if callees.is_empty() { 0 } else { 7 },              // 5 static call
            3,                                                   // 6 dynamic call
            self.cfg.natives.min(3),                             // 7 id(x) native
            if want == Ty::Num || want == Ty::Any { tables } else { 0 }, // 8 len
            if has_table_var { tables } else { 0 },              // 9 get property
            if has_table_var && (want == Ty::Any || want == Ty::Table) { tables / 2 } else { 0 }, // 10 row / pop
            self.cfg.reentry,                                    // 11 call0 / call1
            if want == Ty::Any { self.cfg.closures } else { 0 }, // 12 closure value
            if want == Ty::Any || want == Ty::Num { 1 } else { 0 }, // 13 value composite
        ];
        match self.c.weighted(&w) {
            0 => self.leaf(ctx, want),
            1 => {
                let op = *self.c.pick(&[BinOp::Add, BinOp::Sub, BinOp::Mul, BinOp::Div]);
                let lt = if self.c.chance(self.cfg.errors * 12) { Ty::Any } else { Ty::Num };
                let (a, _) = self.expr(ctx, lt, depth + 1);
                let (b, _) = self.expr(ctx, Ty::Num, depth + 1);
                (Expr::Bin(op, Box::new(a), Box::new(b)), Ty::Num)
            }
            2 => {
                let op = *self.c.pick(&[BinOp::Less, BinOp::LessOrEq, BinOp::Equals, BinOp::NotEquals]);
                let t = if self.c.chance(90) { Ty::Any } else { Ty::Num };
                let (a, _) = self.expr(ctx, t, depth + 1);
                let (b, _) = self.expr(ctx, t, depth + 1);
                (Expr::Bin(op, Box::new(a), Box::new(b)), Ty::Num)
            }
            3 => {
                if self.c.chance(80) {
                    let (a, _) = self.expr(ctx, Ty::Any, depth + 1);
                    (Expr::Not(Box::new(a)), Ty::Num)
                } else {
                    let op = *self.c.pick(&[BinOp::And, BinOp::Or, BinOp::Xor]);
                    let (a, _) = self.expr(ctx, Ty::Any, depth + 1);
                    let (b, _) = self.expr(ctx, Ty::Any, depth + 1);
                    (Expr::Bin(op, Box::new(a), Box::new(b)), Ty::Num)
                }
            }
            4 => {
                let (c, _) = self.expr(ctx, Ty::Any, depth + 1);
                let (t, tt) = self.expr(ctx, want, depth + 1);
                let (f, ft) = self.expr(ctx, want, depth + 1);
                (Expr::IfElse(Box::new(c), Box::new(t), Box::new(f)), if tt == ft { tt } else { Ty::Any })
            }
            5 => {
                let j = *self.c.pick(&callees);
                let args = self.args(ctx, self.sigs[j].arity, depth);
                (Expr::Call(self.spelled(j), j, args), Ty::Any)
            }
            6 => {
                let ill = self.error_budget > 0 && self.c.chance(12);
                if ill {
                    self.error_budget -= 1;
                    // calling a non-function: expected outcome is an error
                    let (f, _) = self.literal();
                    return (Expr::DynCall(Box::new(f), vec![]), Ty::Any);
                }
                let arity = self.c.draw(3);
                let args = self.args(ctx, arity, depth);
                let (f, _) = self.func_value(ctx, arity, depth + 1);
                (Expr::DynCall(Box::new(f), args), Ty::Any)
            }
            7 => {
                let (a, t) = self.expr(ctx, want, depth + 1);
                (Expr::CallNative("id".into(), vec![a]), t)
            }
            8 => {
                let (a, _) = self.expr(ctx, Ty::Any, depth + 1);
                (Expr::Len(Box::new(a)), Ty::Num)
            }
            9 => {
                let (t, _) = self.table_expr(ctx);
                let k = self.key_expr(ctx, depth);
                (Expr::GetProp(Box::new(t), Box::new(k)), Ty::Any)
            }
            10 => {
                let (t, _) = self.table_expr(ctx);
                if self.c.bool() {
                    let (i, _) = self.expr(ctx, Ty::Num, depth + 1);
                    (Expr::Get(Box::new(t), Box::new(i)), Ty::Table)
                } else {
                    (Expr::PopTable(Box::new(t)), Ty::Any)
                }
            }
            11 => {
                // the re-entering native is reached either by a CallNative card or, as a function
                // value, through a dynamic call (a different dispatch path in the VM)
                let (name, args) = if self.c.bool() {
                    let (f, _) = self.func_value(ctx, 0, depth + 1);
                    ("call0", vec![f])
                } else {
                    let (f, _) = self.func_value(ctx, 1, depth + 1);
                    let (x, _) = self.expr(ctx, Ty::Any, depth + 1);
                    ("call1", vec![f, x])
                };
                if self.c.chance(90) {
                    (Expr::DynCall(Box::new(Expr::NativeRef(name.into())), args), Ty::Any)
                } else {
                    (Expr::CallNative(name.into(), args), Ty::Any)
                }
            }
            12 => {
                let a = self.c.draw(3);
                (self.closure(ctx, a, depth + 1), Ty::Func(a))
            }
            _ => {
                // value-form composite: only non-declaring, non-looping statements inside
                let mut stmts = vec![];
                let n = 1 + self.c.draw(2);
                for _ in 0..n {
                    let s = self.simple_stmt(ctx, depth + 1);
                    stmts.push(s);
                }
                let (v, t) = self.expr(ctx, want, depth + 1);
                (Expr::Composite(stmts, Box::new(v)), t)
            }
        }
    }

    fn table_expr(&mut self, ctx: &mut FnCtx) -> (Expr, Ty) {
        let vars = self.vars_of(ctx, Ty::Table);
        if self.error_budget > 0 && self.c.chance(10) {
            self.error_budget -= 1;
            return self.literal(); // ill-typed on purpose: expected outcome is an error
        }
        if vars.is_empty() {
            (Expr::CreateTable, Ty::Table)
        } else {
            (Expr::Var(self.c.pick(&vars).clone()), Ty::Table)
        }
    }

    fn key_expr(&mut self, ctx: &mut FnCtx, depth: u32) -> Expr {
        match self.c.weighted(&[5, 5, 2]) {
            0 => Expr::Int(self.c.range(0, 5)),
            1 => Expr::Str(self.c.pick(&KEYS).to_string()),
            _ => self.expr(ctx, Ty::Num, depth + 2).0,
        }
    }

    /// statements that neither declare locals nor loop (safe under If/While and inside values)
    fn simple_stmt(&mut self, ctx: &mut FnCtx, depth: u32) -> Stmt {
        self.budget -= 1;
        let existing: Vec<String> = self.visible(ctx).into_iter().map(|(n, _)| n).filter(|n| !n.is_empty()).collect();
        let has_table = !self.vars_of(ctx, Ty::Table).is_empty();
        let w = [
            self.cfg.natives.max(1) * 2,                 // log
            6,                                           // set global
            if existing.is_empty() { 0 } else { 6 },     // assign existing local
            if has_table { self.cfg.tables * 2 } else { 0 }, // set property
            if has_table { self.cfg.tables } else { 0 }, // append
        ];
        match self.c.weighted(&w) {
            0 => {
                let (e, _) = self.expr(ctx, Ty::Any, depth + 1);
                log_stmt(e)
            }
            1 => {
                let name = format!("g{}", self.c.draw(8));
                let (e, _) = self.expr(ctx, Ty::Any, depth + 1);
                self.all_globals.insert(name.clone());
                Stmt::SetGlobal(name, e)
            }
            2 => {
                let name = self.c.pick(&existing).clone();
                let (e, t) = self.expr(ctx, Ty::Any, depth + 1);
                self.set_ty(ctx, &name, t);
                Stmt::SetVar(name, e)
            }
            3 => {
                let (t, _) = self.table_expr(ctx);
                let k = self.key_expr(ctx, depth);
                let (v, _) = self.expr(ctx, Ty::Any, depth + 1);
                Stmt::SetProp(v, t, k)
            }
            _ => {
                let (t, _) = self.table_expr(ctx);
                let (v, _) = self.expr(ctx, Ty::Any, depth + 1);
                Stmt::Append(v, t)
            }
        }
    }

    fn gen_block(&mut self, ctx: &mut FnCtx, n: usize, declare_ok: bool, out: &mut Vec<Stmt>) {
        for _ in 0..n {
            if self.budget <= 0 || self.c.exhausted() {
                break;
            }
            let s = self.stmt(ctx, declare_ok, 0);
            out.push(s);
        }
    }

    fn body_stmt(&mut self, ctx: &mut FnCtx, declare_ok: bool, depth: u32) -> Stmt {
        // a loop / branch body is one card: a single statement or a block composite
        if self.c.chance(150) {
            let n = 1 + self.c.draw(3);
            let mut v = vec![];
            for _ in 0..n {
                if self.budget <= 0 {
                    break;
                }
                v.push(self.stmt(ctx, declare_ok, depth + 1));
            }
            Stmt::Composite(v)
        } else {
            self.stmt(ctx, declare_ok, depth + 1)
        }
    }

    pub fn stmt(&mut self, ctx: &mut FnCtx, declare_ok: bool, depth: u32) -> Stmt {
        self.budget -= 1;
        if self.budget <= 0 || depth >= 4 {
            return self.simple_stmt(ctx, depth);
        }
        let can_return = !ctx.is_main || self.cfg.return_in_main;
        let bias = if self.cfg.closure_bias { 3 } else { 1 };
        let w: [u32; 12] = [
            12,                                       // 0 simple statement
            if declare_ok { 10 * bias } else { 0 },   // 1 declare / assign a pool local
            5,                                        // 2 if / unless / if-else
            if declare_ok { 3 } else { 0 },           // 3 while (needs a fresh counter local)
            4,                                        // 4 repeat
            if self.cfg.tables > 0 { 3 } else { 0 },  // 5 for-each
            if can_return { if ctx.is_main { 1 } else { 3 } } else { 0 }, // 6 return
            if declare_ok && self.cfg.tables > 0 { 3 } else { 0 }, // 7 array / table local
            if self.expr_stmts < 3 { self.cfg.expr_stmt } else { 0 }, // 8 value card as statement
            if ctx.is_main && !ctx.is_closure && self.cfg.abort { 1 } else { 0 }, // 9 abort
            1,                                        // 10 comment
            if self.error_budget > 0 { 1 } else { 0 }, // 11 failing native / missing native
        ];
        match self.c.weighted(&w) {
            0 => self.simple_stmt(ctx, depth),
            1 => {
                let name = self.c.pick(&LOCALS).to_string();
                let want = if self.cfg.closure_bias && self.c.chance(100) { Ty::Func(self.c.draw(2)) } else { Ty::Any };
                let (e, t) = self.expr(ctx, want, depth + 1);
                if !self.set_ty(ctx, &name, t) {
                    ctx.scopes.last_mut().unwrap().push((name.clone(), t));
                }
                if let (true, Ty::Func(arity)) = (self.cfg.closure_bias, t) {
                    // call what was just stored: twice, with a write to some visible variable in
                    // between, so shared-by-reference behaviour is observable
                    let mut block = vec![Stmt::SetVar(name.clone(), e)];
                    let args = self.args(ctx, arity, depth + 1);
                    block.push(log_stmt(Expr::DynCall(Box::new(Expr::Var(name.clone())), args)));
                    let others: Vec<String> = self.visible(ctx).into_iter().filter(|(n, t)| !n.is_empty() && *n != name && !matches!(t, Ty::Func(_))).map(|(n, _)| n).collect();
                    if !others.is_empty() && self.c.chance(170) {
                        let v = self.c.pick(&others).clone();
                        let (val, vt) = self.expr(ctx, Ty::Num, depth + 2);
                        self.set_ty(ctx, &v, vt);
                        block.push(Stmt::SetVar(v, val));
                    }
                    if self.c.chance(170) {
                        let args = self.args(ctx, arity, depth + 1);
                        let call = Expr::DynCall(Box::new(Expr::Var(name.clone())), args);
                        block.push(log_stmt(if arity == 0 && self.c.chance(60) { Expr::CallNative("call0".into(), vec![Expr::Var(name)]) } else { call }));
                    }
                    return Stmt::Composite(block);
                }
                Stmt::SetVar(name, e)
            }
            2 => {
                let (c, _) = self.expr(ctx, Ty::Any, depth + 1);
                match self.c.draw(3) {
                    0 => Stmt::IfTrue(c, Box::new(self.body_stmt(ctx, false, depth))),
                    1 => Stmt::IfFalse(c, Box::new(self.body_stmt(ctx, false, depth))),
                    _ => {
                        let t = self.body_stmt(ctx, false, depth);
                        let f = self.body_stmt(ctx, false, depth);
                        Stmt::IfElse(c, Box::new(t), Box::new(f))
                    }
                }
            }
            3 => {
                let w = format!("w{}_", self.next_while);
                self.next_while += 1;
                let k = self.c.draw(4) as i64;
                let mut body = vec![];
                let n = 1 + self.c.draw(2);
                for _ in 0..n {
                    body.push(self.stmt(ctx, false, depth + 1));
                }
                body.push(Stmt::SetVar(w.clone(), Expr::Bin(BinOp::Sub, Box::new(Expr::Var(w.clone())), Box::new(Expr::Int(1)))));
                Stmt::Composite(vec![
                    Stmt::SetVar(w.clone(), Expr::Int(k)),
                    Stmt::While(Expr::Bin(BinOp::Less, Box::new(Expr::Int(0)), Box::new(Expr::Var(w))), Box::new(Stmt::Composite(body))),
                ])
            }
            4 => {
                let n = if self.c.chance(200) { Expr::Int(self.c.draw(5) as i64) } else { self.expr(ctx, Ty::Num, depth + 2).0 };
                let i = if self.c.bool() { Some(self.c.pick(&LOCALS).to_string()) } else { None };
                ctx.scopes.push(vec![]);
                if let Some(i) = &i {
                    ctx.scopes.last_mut().unwrap().push((i.clone(), Ty::Num));
                }
                let body = self.body_stmt(ctx, true, depth);
                ctx.scopes.pop();
                Stmt::Repeat(n, i, Box::new(body))
            }
            5 => {
                let (iterable, _) = self.table_expr(ctx);
                let pick = |g: &mut Self| if g.c.bool() { Some(g.c.pick(&LOCALS).to_string()) } else { None };
                let (v, k, i) = (pick(self), pick(self), pick(self));
                ctx.scopes.push(vec![]);
                for (n, t) in [(&v, Ty::Any), (&k, Ty::Any), (&i, Ty::Num)] {
                    if let Some(n) = n {
                        ctx.scopes.last_mut().unwrap().push((n.clone(), t));
                    }
                }
                let body = self.body_stmt(ctx, true, depth);
                ctx.scopes.pop();
                Stmt::ForEach { i, k, v, iterable, body: Box::new(body) }
            }
            6 => {
                let (e, _) = self.expr(ctx, Ty::Any, depth + 1);
                Stmt::Return(e)
            }
            7 => {
                let name = self.c.pick(&LOCALS).to_string();
                let e = if self.c.bool() {
                    let n = self.c.draw(4);
                    Expr::Array((0..n).map(|_| self.expr(ctx, Ty::Any, depth + 2).0).collect())
                } else {
                    Expr::CreateTable
                };
                if !self.set_ty(ctx, &name, Ty::Table) {
                    ctx.scopes.last_mut().unwrap().push((name.clone(), Ty::Table));
                }
                Stmt::SetVar(name, e)
            }
            8 => {
                self.expr_stmts += 1;
                let (e, _) = self.expr(ctx, Ty::Any, depth + 1);
                Stmt::ExprStmt(e)
            }
            9 => Stmt::Abort,
            10 => Stmt::Comment("note".into()),
            _ => {
                self.error_budget -= 1;
                let name = if self.c.bool() { "fail" } else { "nope" };
                Stmt::ExprStmt(Expr::CallNative(name.into(), vec![]))
            }
        }
    }
}

/// Error-free filler statements for hand-assembled programs (C15): a block generated in a fresh
/// function context with the given parameters; no failing constructs, no Return / Abort, no
/// calls to other script functions, no bare value cards.
pub fn gen_filler(c: &mut Choices, n: usize, params: &[String], is_main: bool) -> Vec<Stmt> {
    let cfg = GenCfg {
        max_funcs: 1,
        budget: 30,
        closures: 2,
        // no table cards: a row index or a table operand that goes wrong at run time would raise
        // an error before the planted one
        tables: 0,
        natives: 5,
        reentry: 0,
        expr_stmt: 0,
        errors: 0,
        wide_globals: false,
        return_in_main: false,
        abort: false,
        closure_bias: false,
        submodule: false,
    };
    let mut g = G {
        c,
        cfg,
        budget: 30,
        sigs: vec![Sig { name: "filler".into(), arity: params.len(), in_sub: false }],
        cur_fn: 0,
        readable_globals: vec![],
        all_globals: BTreeSet::new(),
        next_closure: 500,
        next_while: 500,
        expr_stmts: 0,
        error_budget: 0,
    };
    let mut ctx = FnCtx { scopes: vec![params.iter().map(|p| (p.clone(), Ty::Any)).collect()], outer: vec![], is_main: true, is_closure: !is_main };
    let mut out = vec![];
    g.gen_block(&mut ctx, n, true, &mut out);
    out
}
