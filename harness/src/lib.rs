pub mod choice;
pub mod engine;
pub mod props;
pub mod testalloc;
pub mod mval;
