//! Counting / fault-injecting allocator for the collections (needs hook H2: the crate-private
//! `Allocator` trait re-exported as `cao_lang::verif::alloc::Allocator`).

use cao_lang::verif::alloc::{AllocError, Allocator};
use std::alloc::Layout;
use std::cell::RefCell;
use std::collections::HashMap;
use std::ptr::NonNull;
use std::rc::Rc;

#[derive(Default)]
pub struct AllocState {
    pub outstanding: HashMap<usize, (usize, usize)>, // ptr -> (size, align)
    pub allocs: u64,
    pub deallocs: u64,
    /// fail the allocation with this index (0-based, one shot)
    pub fail_at: Option<u64>,
    /// injection is suspended (ops that cannot report an error: clone)
    pub suspended: bool,
    pub failed: u64,
    pub errors: Vec<String>,
}

#[derive(Clone, Default)]
pub struct TestAlloc {
    pub st: Rc<RefCell<AllocState>>,
}

impl TestAlloc {
    pub fn new(fail_at: Option<u64>) -> Self {
        let a = TestAlloc::default();
        a.st.borrow_mut().fail_at = fail_at;
        a
    }
}

impl Allocator for TestAlloc {
    unsafe fn alloc(&self, l: Layout) -> Result<NonNull<u8>, AllocError> {
        let mut st = self.st.borrow_mut();
        let idx = st.allocs;
        st.allocs += 1;
        if !st.suspended && st.fail_at == Some(idx) {
            st.failed += 1;
            return Err(AllocError::OutOfMemory);
        }
        // zero-sized requests are not valid for the system allocator; hand out a dangling
        // pointer the way a conforming allocator wrapper would
        let p = if l.size() == 0 {
            l.align() as *mut u8
        } else {
            std::alloc::alloc(l)
        };
        if l.size() != 0 {
            st.outstanding.insert(p as usize, (l.size(), l.align()));
        }
        Ok(NonNull::new(p).expect("system allocator returned null"))
    }

    unsafe fn dealloc(&self, p: NonNull<u8>, l: Layout) {
        let mut st = self.st.borrow_mut();
        st.deallocs += 1;
        if l.size() == 0 {
            return;
        }
        match st.outstanding.remove(&(p.as_ptr() as usize)) {
            Some((size, align)) => {
                if size != l.size() || align != l.align() {
                    st.errors.push(format!(
                        "dealloc with layout ({},{}) of a block allocated with ({},{})",
                        l.size(),
                        l.align(),
                        size,
                        align
                    ));
                    // free with the layout it was allocated with
                    std::alloc::dealloc(p.as_ptr(), Layout::from_size_align(size, align).unwrap());
                } else {
                    std::alloc::dealloc(p.as_ptr(), l);
                }
            }
            None => {
                st.errors.push(format!("dealloc of a pointer that is not outstanding ({:p})", p.as_ptr()));
            }
        }
    }
}

/// drop ledger shared by keys and values
#[derive(Default, Debug)]
pub struct Ledger {
    pub drops: Vec<u8>,
    pub double_drop: Option<usize>,
}

pub type LedgerRef = Rc<RefCell<Ledger>>;

pub fn ledger_new_instance(l: &LedgerRef) -> usize {
    let mut l = l.borrow_mut();
    l.drops.push(0);
    l.drops.len() - 1
}

pub fn ledger_drop(l: &LedgerRef, inst: usize) {
    let mut l = l.borrow_mut();
    if inst < l.drops.len() {
        l.drops[inst] = l.drops[inst].saturating_add(1);
        if l.drops[inst] > 1 && l.double_drop.is_none() {
            l.double_drop = Some(inst);
        }
    }
}

/// Some(description) if any instance was dropped a number of times other than 1
pub fn ledger_final(l: &LedgerRef) -> Option<String> {
    let l = l.borrow();
    for (i, d) in l.drops.iter().enumerate() {
        if *d != 1 {
            return Some(format!("instance #{} dropped {} times (of {} instances)", i, d, l.drops.len()));
        }
    }
    None
}
