//! Host functions with every parameter type the crate supports, in several arities and
//! positions (C18). The name encodes the signature: `t_` + one letter per parameter:
//! i=i64 f=f64 b=bool s=&str v=Value t=&CaoLangTable p=*mut CaoLangTable n=Nilable<i64>
//! m=Nilable<&str>. Each native records the parameters it received (after conversion) in the
//! host log and returns a code identifying it.

use crate::mval::MV;
use crate::observe::Host;
use cao_lang::prelude::*;

type NR = Result<Value, ExecutionErrorPayload>;

pub trait Rec {
    fn rec(self) -> MV;
}
impl Rec for i64 {
    fn rec(self) -> MV {
        MV::Int(self)
    }
}
impl Rec for f64 {
    fn rec(self) -> MV {
        MV::Real(self)
    }
}
impl Rec for bool {
    fn rec(self) -> MV {
        MV::Int(self as i64)
    }
}
impl Rec for &str {
    fn rec(self) -> MV {
        MV::Str(self.to_string())
    }
}
impl Rec for Value {
    fn rec(self) -> MV {
        MV::from_value(self)
    }
}
impl Rec for &CaoLangTable {
    fn rec(self) -> MV {
        MV::Table(self.iter().map(|(k, v)| (MV::from_value(*k), MV::from_value(*v))).collect())
    }
}
impl Rec for *mut CaoLangTable {
    fn rec(self) -> MV {
        unsafe { (&*self).rec() }
    }
}
impl<T: Rec> Rec for Nilable<T> {
    fn rec(self) -> MV {
        match self.0 {
            None => MV::Nil,
            Some(x) => x.rec(),
        }
    }
}

pub fn code_of(name: &str) -> i64 {
    name.bytes().fold(7i64, |a, b| (a * 31 + b as i64) % 100_000)
}

macro_rules! native {
    ($fname:ident, $lit:expr $(, $p:ident : $t:ty)*) => {
        fn $fname(vm: &mut Vm<Host>, $($p: $t),*) -> NR {
            vm.auxiliary_data.log.push(($lit.to_string(), vec![$(Rec::rec($p)),*]));
            Ok(Value::Integer(code_of($lit)))
        }
    };
}

native!(t_z, "t_z");
native!(t_i, "t_i", a: i64);
native!(t_f, "t_f", a: f64);
native!(t_b, "t_b", a: bool);
native!(t_s, "t_s", a: &str);
native!(t_v, "t_v", a: Value);
native!(t_t, "t_t", a: &CaoLangTable);
native!(t_p, "t_p", a: *mut CaoLangTable);
native!(t_n, "t_n", a: Nilable<i64>);
native!(t_m, "t_m", a: Nilable<&str>);
native!(t_is, "t_is", a: i64, b: &str);
native!(t_si, "t_si", a: &str, b: i64);
native!(t_fb, "t_fb", a: f64, b: bool);
native!(t_vt, "t_vt", a: Value, b: &CaoLangTable);
native!(t_nf, "t_nf", a: Nilable<i64>, b: f64);
native!(t_ss, "t_ss", a: &str, b: &str);
native!(t_tv, "t_tv", a: &CaoLangTable, b: Value);
native!(t_isf, "t_isf", a: i64, b: &str, c: f64);
native!(t_svb, "t_svb", a: &str, b: Value, c: bool);
native!(t_bmi, "t_bmi", a: bool, b: Nilable<&str>, c: i64);
native!(t_vvv, "t_vvv", a: Value, b: Value, c: Value);
native!(t_ifsv, "t_ifsv", a: i64, b: f64, c: &str, d: Value);
native!(t_ssib, "t_ssib", a: &str, b: &str, c: i64, d: bool);
native!(t_vvvv, "t_vvvv", a: Value, b: Value, c: Value, d: Value);
native!(t_nmtp, "t_nmtp", a: Nilable<i64>, b: Nilable<&str>, c: &CaoLangTable, d: *mut CaoLangTable);

/// natives returning a value of every kind
fn r_nil(_vm: &mut Vm<Host>) -> NR {
    Ok(Value::Nil)
}
fn r_int(_vm: &mut Vm<Host>) -> NR {
    Ok(Value::Integer(-42))
}
fn r_real(_vm: &mut Vm<Host>) -> NR {
    Ok(Value::Real(2.5))
}
fn r_str(vm: &mut Vm<Host>) -> NR {
    Ok(Value::Object(vm.init_string("from host")?.into_inner()))
}
fn r_table(vm: &mut Vm<Host>) -> NR {
    let mut t = vm.init_table()?;
    t.as_table_mut().unwrap().insert(Value::Integer(1), Value::Integer(2))?;
    Ok(Value::Object(t.into_inner()))
}

pub const SIGNATURES: [&str; 25] = [
    "t_z", "t_i", "t_f", "t_b", "t_s", "t_v", "t_t", "t_p", "t_n", "t_m", "t_is", "t_si", "t_fb", "t_vt", "t_nf", "t_ss", "t_tv", "t_isf", "t_svb",
    "t_bmi", "t_vvv", "t_ifsv", "t_ssib", "t_vvvv", "t_nmtp",
];
pub const RETURNERS: [&str; 5] = ["r_nil", "r_int", "r_real", "r_str", "r_table"];

pub fn register(vm: &mut Vm<'static, Host>) {
    type F0 = fn(&mut Vm<Host>) -> NR;
    vm.register_native_function("t_z", t_z as F0).unwrap();
    vm.register_native_function("t_i", into_f1(t_i)).unwrap();
    vm.register_native_function("t_f", into_f1(t_f)).unwrap();
    vm.register_native_function("t_b", into_f1(t_b)).unwrap();
    vm.register_native_function("t_s", into_f1(t_s)).unwrap();
    vm.register_native_function("t_v", into_f1(t_v)).unwrap();
    vm.register_native_function("t_t", into_f1(t_t)).unwrap();
    vm.register_native_function("t_p", into_f1(t_p)).unwrap();
    vm.register_native_function("t_n", into_f1(t_n)).unwrap();
    vm.register_native_function("t_m", into_f1(t_m)).unwrap();
    vm.register_native_function("t_is", into_f2(t_is)).unwrap();
    vm.register_native_function("t_si", into_f2(t_si)).unwrap();
    vm.register_native_function("t_fb", into_f2(t_fb)).unwrap();
    vm.register_native_function("t_vt", into_f2(t_vt)).unwrap();
    vm.register_native_function("t_nf", into_f2(t_nf)).unwrap();
    vm.register_native_function("t_ss", into_f2(t_ss)).unwrap();
    vm.register_native_function("t_tv", into_f2(t_tv)).unwrap();
    vm.register_native_function("t_isf", into_f3(t_isf)).unwrap();
    vm.register_native_function("t_svb", into_f3(t_svb)).unwrap();
    vm.register_native_function("t_bmi", into_f3(t_bmi)).unwrap();
    vm.register_native_function("t_vvv", into_f3(t_vvv)).unwrap();
    vm.register_native_function("t_ifsv", into_f4(t_ifsv)).unwrap();
    vm.register_native_function("t_ssib", into_f4(t_ssib)).unwrap();
    vm.register_native_function("t_vvvv", into_f4(t_vvvv)).unwrap();
    vm.register_native_function("t_nmtp", into_f4(t_nmtp)).unwrap();
    vm.register_native_function("r_nil", r_nil as F0).unwrap();
    vm.register_native_function("r_int", r_int as F0).unwrap();
    vm.register_native_function("r_real", r_real as F0).unwrap();
    vm.register_native_function("r_str", r_str as F0).unwrap();
    vm.register_native_function("r_table", r_table as F0).unwrap();
}
