//! Case loop, worker isolation, shrinking, replay, evidence, known findings.
//!
//! parent:  `check run <ID> <tier>`   spawns N workers, a watchdog, merges results, writes evidence
//! worker:  `check worker <ID> <tier> <seed> <k> <n> <outfile> <progressfile>`
//! single:  `check one <ID> <tier> <hexfile>`  runs exactly one case (used to confirm crashes/hangs
//!          and to shrink them with one fresh process per candidate)
//! replay:  `check replay <ID> <file.json>`

use crate::choice::{fnv64, hex, unhex};
use proptest::collection::vec as pvec;
use proptest::prelude::any;
use proptest::test_runner::{Config, RngSeed, TestCaseError, TestError, TestRunner};
use serde_json::{json, Value as J};
use std::cell::RefCell;
use std::collections::{BTreeMap, BTreeSet};
use std::io::{Seek, SeekFrom, Write};
use std::path::{Path, PathBuf};
use std::time::{Duration, Instant};

#[derive(Clone, Copy, Debug, PartialEq, Eq)]
pub enum Tier {
    Quick,
    Thorough,
}

impl Tier {
    pub fn parse(s: &str) -> Tier {
        if s == "thorough" {
            Tier::Thorough
        } else {
            Tier::Quick
        }
    }
    pub fn name(self) -> &'static str {
        match self {
            Tier::Quick => "quick",
            Tier::Thorough => "thorough",
        }
    }
    /// multiplier on the quick case count
    pub fn scale(self) -> u64 {
        match self {
            Tier::Quick => 1,
            Tier::Thorough => std::env::var("VERIF_THOROUGH_SCALE")
                .ok()
                .and_then(|s| s.parse().ok())
                .unwrap_or(40),
        }
    }
}

#[derive(Clone, Debug)]
pub struct Failure {
    /// which oracle clause failed
    pub clause: String,
    /// signature used to match known findings; no spaces
    pub sig: String,
    pub detail: String,
}

impl Failure {
    pub fn new(clause: &str, sig: &str, detail: impl Into<String>) -> Self {
        Failure {
            clause: clause.to_string(),
            sig: sig.replace(' ', "_"),
            detail: detail.into(),
        }
    }
    pub fn to_json(&self) -> J {
        json!({"clause": self.clause, "sig": self.sig, "detail": self.detail})
    }
}

pub enum Verdict {
    Pass,
    Discard(&'static str),
    Fail(Failure),
}

pub struct CaseOut {
    pub verdict: Verdict,
    pub nontrivial: bool,
    pub labels: Vec<String>,
    /// hash of the decoded case (not of the raw bytes)
    pub fingerprint: u64,
    /// executions of the real code made for this case
    pub execs: u64,
}

impl CaseOut {
    pub fn pass(fingerprint: u64) -> Self {
        CaseOut {
            verdict: Verdict::Pass,
            nontrivial: false,
            labels: vec![],
            fingerprint,
            execs: 1,
        }
    }
}

pub trait Property: Sync {
    fn id(&self) -> &'static str;
    fn rule(&self) -> &'static str;
    fn level(&self) -> &'static str {
        "exploration"
    }
    fn assumptions(&self) -> Vec<String> {
        vec![]
    }
    /// maximal length of the choice string
    fn max_len(&self) -> usize;
    /// number of generated cases in the quick tier (whole campaign, all workers)
    fn quick_cases(&self) -> u64;
    fn describe(&self, bytes: &[u8]) -> J;
    fn run(&self, bytes: &[u8], tier: Tier) -> CaseOut;
    /// true if the property itself states termination (a confirmed hang is then a violation;
    /// otherwise a hang makes the run inconclusive, exit 2)
    fn states_termination(&self) -> bool {
        false
    }
    fn case_timeout(&self) -> Duration {
        Duration::from_secs(60)
    }
    /// labels whose share among evaluated cases must reach the floor (else inconclusive)
    fn label_floors(&self) -> Vec<(&'static str, f64)> {
        vec![]
    }
    /// hand-written choice strings that are always run first (e.g. boundary cases)
    fn fixed_cases(&self) -> Vec<Vec<u8>> {
        vec![]
    }
    /// generator-independent form of the case (e.g. the program IR). Replay files store it, and
    /// `run_structured` replays from it, so that saved regressions survive generator changes.
    fn structured(&self, _bytes: &[u8]) -> Option<J> {
        None
    }
    fn run_structured(&self, _case: &J, _tier: Tier) -> Option<CaseOut> {
        None
    }
    /// a short tag describing what the case does, appended to the signature of a crash or hang
    /// (which carries no detail of its own) so that a known crash does not mask other crashes;
    /// must only decode, never run the case
    fn crash_context(&self, _bytes: &[u8]) -> String {
        String::new()
    }
}

/// root of the verification tree; background snapshot runs set VERIF_ROOT to their own copy so
/// that they do not overwrite /verif/evidence
pub fn verif_root() -> PathBuf {
    PathBuf::from(std::env::var("VERIF_ROOT").unwrap_or_else(|_| "/verif".to_string()))
}

// ---------------------------------------------------------------------------------------------
// known findings
// ---------------------------------------------------------------------------------------------

#[derive(Clone, Debug)]
pub struct Known {
    pub property: String,
    pub sig: String,
    pub text: String,
}

pub fn load_known(property: &str) -> Vec<Known> {
    let path = verif_root().join("KNOWN_FINDINGS.txt");
    let mut out = vec![];
    if let Ok(s) = std::fs::read_to_string(path) {
        for line in s.lines() {
            let line = line.trim();
            if !line.starts_with("known:") {
                continue;
            }
            let rest = line["known:".len()..].trim();
            let mut prop = None;
            let mut sig = None;
            let mut text_start = 0;
            let mut off = 0;
            for tok in rest.split(' ') {
                if let Some(p) = tok.strip_prefix("property=") {
                    prop = Some(p.to_string());
                    text_start = off + tok.len() + 1;
                } else if let Some(s) = tok.strip_prefix("sig=") {
                    sig = Some(s.to_string());
                    text_start = off + tok.len() + 1;
                } else if !tok.is_empty() {
                    break;
                }
                off += tok.len() + 1;
            }
            if let (Some(p), Some(s)) = (prop, sig) {
                if p == property {
                    out.push(Known {
                        property: p,
                        sig: s,
                        text: rest.get(text_start..).unwrap_or("").trim().to_string(),
                    });
                }
            }
        }
    }
    out
}

// ---------------------------------------------------------------------------------------------
// panic capture
// ---------------------------------------------------------------------------------------------

thread_local! {
    static LAST_PANIC: RefCell<Option<String>> = RefCell::new(None);
}

pub fn install_quiet_panic_hook() {
    std::panic::set_hook(Box::new(|info| {
        let msg = if let Some(s) = info.payload().downcast_ref::<&str>() {
            s.to_string()
        } else if let Some(s) = info.payload().downcast_ref::<String>() {
            s.clone()
        } else {
            "<non-string panic>".to_string()
        };
        let loc = info
            .location()
            .map(|l| format!("{}:{}", l.file(), l.line()))
            .unwrap_or_default();
        LAST_PANIC.with(|p| *p.borrow_mut() = Some(format!("{} @ {}", msg, loc)));
    }));
}

fn sanitize_sig(s: &str) -> String {
    let mut out = String::new();
    for c in s.chars() {
        if c.is_ascii_alphanumeric() || c == '_' || c == ':' || c == '.' || c == '/' {
            out.push(c);
        } else if !out.ends_with('_') {
            out.push('_');
        }
        if out.len() >= 80 {
            break;
        }
    }
    out
}

/// run one case with panic capture. A panic escaping the property code is a failure with
/// signature `panic:<file>:<sanitized message>` (file without line so that unrelated edits do not
/// change it).
pub fn run_guarded(prop: &dyn Property, bytes: &[u8], tier: Tier) -> CaseOut {
    guarded(fnv64(bytes), || prop.run(bytes, tier))
}

pub fn guarded(fp: u64, f: impl FnOnce() -> CaseOut) -> CaseOut {
    LAST_PANIC.with(|p| *p.borrow_mut() = None);
    let res = std::panic::catch_unwind(std::panic::AssertUnwindSafe(f));
    match res {
        Ok(out) => out,
        Err(_) => {
            let msg = LAST_PANIC
                .with(|p| p.borrow_mut().take())
                .unwrap_or_else(|| "<unknown panic>".into());
            let (m, loc) = match msg.rfind(" @ ") {
                Some(i) => (msg[..i].to_string(), msg[i + 3..].to_string()),
                None => (msg.clone(), String::new()),
            };
            let file = loc.rsplit('/').next().unwrap_or("").split(':').next().unwrap_or("");
            let sig = format!("panic:{}:{}", file, sanitize_sig(&m));
            CaseOut {
                verdict: Verdict::Fail(Failure::new("no_panic", &sig, format!("panic: {}", msg))),
                nontrivial: false,
                labels: vec!["panic".into()],
                fingerprint: fp,
                execs: 1,
            }
        }
    }
}

/// run a saved replay: from its generator-independent form when the property supports that,
/// else from the choice bytes
pub fn run_replay_json(prop: &dyn Property, j: &J, tier: Tier) -> CaseOut {
    if !j["structured"].is_null() {
        let mut supported = true;
        let out = guarded(0, || match prop.run_structured(&j["structured"], tier) {
            Some(o) => o,
            None => {
                supported = false;
                CaseOut::pass(0)
            }
        });
        if supported {
            return out;
        }
    }
    let bytes = unhex(j["choices"].as_str().unwrap_or(""));
    run_guarded(prop, &bytes, tier)
}

// ---------------------------------------------------------------------------------------------
// worker
// ---------------------------------------------------------------------------------------------

#[derive(Default)]
struct Stats {
    cases: u64,
    execs: u64,
    discards: BTreeMap<String, u64>,
    labels: BTreeMap<String, u64>,
    known_hits: BTreeMap<String, u64>,
    nontrivial: BTreeSet<u64>,
    samples: Vec<J>,
    frozen: bool,
}

struct Progress {
    file: std::fs::File,
    counter: u64,
}

impl Progress {
    fn note(&mut self, bytes: &[u8]) {
        self.counter += 1;
        let mut buf = Vec::with_capacity(bytes.len() + 12);
        buf.extend_from_slice(&self.counter.to_le_bytes());
        buf.extend_from_slice(&(bytes.len() as u32).to_le_bytes());
        buf.extend_from_slice(bytes);
        let _ = self.file.seek(SeekFrom::Start(0));
        let _ = self.file.write_all(&buf);
    }
    /// all cases are done; what follows (writing the result files) is not a case that can hang
    fn finishing(&mut self) {
        let _ = self.file.seek(SeekFrom::Start(0));
        let _ = self.file.write_all(&u64::MAX.to_le_bytes());
    }
}

fn json_depth(j: &J) -> usize {
    match j {
        J::Array(a) => 1 + a.iter().map(json_depth).max().unwrap_or(0),
        J::Object(o) => 1 + o.values().map(json_depth).max().unwrap_or(0),
        _ => 0,
    }
}

fn trim_sample(j: J) -> J {
    let s = j.to_string();
    // (JSON readers refuse documents nested deeper than 128 levels: deep samples are kept as text)
    if s.len() > 6000 || json_depth(&j) > 60 {
        json!({"truncated": true, "text": s.chars().take(6000).collect::<String>()})
    } else {
        j
    }
}

pub fn worker_main(prop: &dyn Property, tier: Tier, seed: u64, k: u64, n: u64, out: &Path, progress: &Path) {
    install_quiet_panic_hook();
    let start = Instant::now();
    // VERIF_QUICK_DIV: development aid only (smaller runs while measuring a generator); never set by the registered commands
    let div: u64 = std::env::var("VERIF_QUICK_DIV").ok().and_then(|s| s.parse().ok()).filter(|d| *d >= 1).unwrap_or(1);
    let total = prop.quick_cases() * tier.scale() / div;
    let my_cases = total / n + if k < total % n { 1 } else { 0 };
    let known = load_known(prop.id());
    let stats = RefCell::new(Stats::default());
    let progress = RefCell::new(Progress {
        file: std::fs::OpenOptions::new()
            .create(true)
            .write(true)
            .truncate(true)
            .open(progress)
            .expect("progress file"),
        counter: 0,
    });

    // one evaluation; returns Some(failure) for an unknown failure
    let last_checkpoint = std::cell::Cell::new(Instant::now());
    let eval = |bytes: &[u8]| -> Option<Failure> {
        progress.borrow_mut().note(bytes);
        if last_checkpoint.get().elapsed() > Duration::from_secs(60) {
            last_checkpoint.set(Instant::now());
            write_worker_result(out, k, &stats.borrow(), &[], start.elapsed().as_secs_f64(), None, false);
        }
        let out = run_guarded(prop, bytes, tier);
        let mut st = stats.borrow_mut();
        let frozen = st.frozen;
        match out.verdict {
            Verdict::Fail(f) => {
                if known.iter().any(|kf| kf.sig == f.sig) {
                    if !frozen {
                        st.cases += 1;
                        st.execs += out.execs;
                        *st.known_hits.entry(f.sig.clone()).or_default() += 1;
                        for l in out.labels {
                            *st.labels.entry(l).or_default() += 1;
                        }
                    }
                    None
                } else {
                    st.frozen = true;
                    Some(f)
                }
            }
            Verdict::Discard(why) => {
                if !frozen {
                    st.cases += 1;
                    *st.discards.entry(why.to_string()).or_default() += 1;
                }
                None
            }
            Verdict::Pass => {
                if !frozen {
                    st.cases += 1;
                    st.execs += out.execs;
                    for l in out.labels {
                        *st.labels.entry(l).or_default() += 1;
                    }
                    if out.nontrivial {
                        let new = st.nontrivial.insert(out.fingerprint);
                        if new && st.samples.len() < 3 {
                            let d = trim_sample(prop.describe(bytes));
                            st.samples.push(d);
                        }
                    }
                }
                None
            }
        }
    };

    let mut failure: Option<(Vec<u8>, Failure)> = None;

    // fixed cases first (worker 0 only)
    if k == 0 {
        for fc in prop.fixed_cases() {
            if let Some(f) = eval(&fc) {
                failure = Some((fc.clone(), f));
                break;
            }
        }
    }

    // A failure that proptest reports is re-run from its shrunk form. If that re-run is a known
    // finding or passes, the first failure was not stable (e.g. a probe that timed out on a busy
    // machine while shrinking reached a known crash): it is recorded, and the campaign goes on
    // with a fresh runner for the remaining cases instead of ending the worker.
    let mut unstable: Vec<String> = vec![];
    let mut round = 0u64;
    while failure.is_none() && stats.borrow().cases < my_cases && round < 50 {
        let remaining = my_cases - stats.borrow().cases;
        let config = Config {
            cases: remaining as u32,
            failure_persistence: None,
            rng_seed: RngSeed::Fixed(seed.wrapping_mul(0x9E3779B97F4A7C15).wrapping_add(k).wrapping_add(round.wrapping_mul(0x51_7C_C1_B7))),
            max_shrink_iters: 4000,
            max_shrink_time: 120_000,
            ..Config::default()
        };
        round += 1;
        let mut runner = TestRunner::new(config);
        let strat = pvec(any::<u8>(), 0..prop.max_len());
        let res = runner.run(&strat, |bytes| match eval(&bytes) {
            None => Ok(()),
            Some(f) => Err(TestCaseError::fail(f.sig)),
        });
        match res {
            Ok(()) => break,
            Err(TestError::Fail(reason, minimal)) => {
                // re-run the minimal value to obtain its own failure description
                stats.borrow_mut().frozen = true;
                let out = run_guarded(prop, &minimal, tier);
                match out.verdict {
                    Verdict::Fail(f) if !known.iter().any(|kf| kf.sig == f.sig) => failure = Some((minimal, f)),
                    other => {
                        let what = match other {
                            Verdict::Fail(f) => format!("known finding {}", f.sig),
                            Verdict::Pass => "pass".to_string(),
                            Verdict::Discard(w) => format!("discard {}", w),
                        };
                        if unstable.len() < 20 {
                            unstable.push(format!("first failure '{}', shrunk form re-run: {}", reason, what));
                        }
                        stats.borrow_mut().frozen = false;
                    }
                }
            }
            Err(TestError::Abort(r)) => {
                failure = Some((vec![], Failure::new("abort", "proptest_abort", format!("{:?}", r))));
            }
        }
    }

    progress.borrow_mut().finishing();
    let st = stats.into_inner();
    let failure_json = failure.as_ref().map(|(b, f)| {
        json!({
            "choices": hex(b),
            "failure": f.to_json(),
            "decoded": trim_sample(prop.describe(b)),
        })
    });
    write_worker_result(out, k, &st, &unstable, start.elapsed().as_secs_f64(), failure_json, true);
}

/// the result file of a worker; also written as a checkpoint (complete = false) about once a
/// minute, so that what a worker had covered is not lost if its process dies
fn write_worker_result(out: &Path, k: u64, st: &Stats, unstable: &[String], wall: f64, failure: Option<J>, complete: bool) {
    let res = json!({
        "worker": k,
        "complete": complete,
        "cases": st.cases,
        "execs": st.execs,
        "discards": st.discards,
        "labels": st.labels,
        "known_hits": st.known_hits,
        "nontrivial_count": st.nontrivial.len(),
        "unstable": unstable,
        "samples": st.samples,
        "wall_s": wall,
        "failure": failure,
    });
    // the fingerprints of the non-trivial cases go to a binary side file (a long run has millions)
    let mut raw = Vec::with_capacity(st.nontrivial.len() * 8);
    for x in &st.nontrivial {
        raw.extend_from_slice(&x.to_le_bytes());
    }
    let tmp = out.with_extension("tmp");
    if std::fs::write(out.with_extension("fp"), raw).is_ok() && std::fs::write(&tmp, serde_json::to_vec(&res).unwrap()).is_ok() {
        let _ = std::fs::rename(&tmp, out);
    }
}

// ---------------------------------------------------------------------------------------------
// single case in a fresh process
// ---------------------------------------------------------------------------------------------

/// exit code 0: pass/discard/known, 3: failure (JSON on stdout)
pub fn one_main(prop: &dyn Property, tier: Tier, file: &Path) -> i32 {
    install_quiet_panic_hook();
    let text = std::fs::read_to_string(file).expect("case file");
    let out = if text.trim_start().starts_with('{') {
        let j: J = serde_json::from_str(&text).expect("replay json");
        run_replay_json(prop, &j, tier)
    } else {
        run_guarded(prop, &unhex(&text), tier)
    };
    match out.verdict {
        Verdict::Fail(f) => {
            println!("{}", f.to_json());
            3
        }
        _ => 0,
    }
}


/// CPU seconds (user + system) a process has consumed so far; None if it is gone
pub fn proc_cpu_secs(pid: u32) -> Option<f64> {
    let stat = std::fs::read_to_string(format!("/proc/{}/stat", pid)).ok()?;
    // the command name may contain spaces: fields are counted after the closing parenthesis
    let rest = &stat[stat.rfind(')')? + 1..];
    let f: Vec<&str> = rest.split_whitespace().collect();
    let ticks: f64 = f.get(11)?.parse::<f64>().ok()? + f.get(12)?.parse::<f64>().ok()?;
    let hz = unsafe { libc::sysconf(libc::_SC_CLK_TCK) } as f64;
    Some(ticks / if hz > 0.0 { hz } else { 100.0 })
}

/// A case is taken to hang when the process has burnt `timeout` of CPU time without finishing it,
/// or has made no progress for WALL_FACTOR x `timeout` of wall-clock time (blocked, or starved
/// on a machine that is heavily oversubscribed): wall-clock alone is not a correctness signal.
pub const WALL_FACTOR: u32 = 20;

pub fn stalled(timeout: Duration, wall: Duration, cpu_then: Option<f64>, cpu_now: Option<f64>) -> bool {
    if wall > timeout * WALL_FACTOR {
        return true;
    }
    match (cpu_then, cpu_now) {
        (Some(a), Some(b)) => wall > timeout && b - a > timeout.as_secs_f64(),
        // no CPU reading: fall back to a generous wall-clock rule
        _ => wall > timeout * 4,
    }
}

#[derive(Debug, Clone)]
pub(crate) enum OneResult {
    Pass,
    Fail(Failure),
    Crash(i32),
    Hang,
}

pub(crate) fn run_one_isolated(prop: &dyn Property, tier: Tier, bytes: &[u8], scratch: &Path, timeout: Duration) -> OneResult {
    let hexfile = scratch.join(format!("one_{}.hex", std::process::id()));
    std::fs::write(&hexfile, hex(bytes)).unwrap();
    run_file_isolated(prop, tier, &hexfile, timeout)
}

fn run_file_isolated(prop: &dyn Property, tier: Tier, hexfile: &Path, timeout: Duration) -> OneResult {
    let exe = std::env::current_exe().unwrap();
    let mut child = std::process::Command::new(exe)
        .args(["one", prop.id(), tier.name()])
        .arg(hexfile)
        .stdout(std::process::Stdio::piped())
        .stderr(std::process::Stdio::null())
        .spawn()
        .expect("spawn one");
    let start = Instant::now();
    let cpu0 = proc_cpu_secs(child.id());
    loop {
        match child.try_wait().unwrap() {
            Some(status) => {
                use std::os::unix::process::ExitStatusExt;
                let mut s = String::new();
                if let Some(mut o) = child.stdout.take() {
                    use std::io::Read;
                    let _ = o.read_to_string(&mut s);
                }
                if let Some(sig) = status.signal() {
                    return OneResult::Crash(sig);
                }
                return match status.code() {
                    Some(0) => OneResult::Pass,
                    Some(3) => {
                        let j: J = serde_json::from_str(s.trim()).unwrap_or(json!({}));
                        OneResult::Fail(Failure {
                            clause: j["clause"].as_str().unwrap_or("?").to_string(),
                            sig: j["sig"].as_str().unwrap_or("?").to_string(),
                            detail: j["detail"].as_str().unwrap_or("").to_string(),
                        })
                    }
                    Some(c) => OneResult::Crash(-c),
                    None => OneResult::Crash(0),
                };
            }
            None => {
                if start.elapsed() > timeout && stalled(timeout, start.elapsed(), cpu0, proc_cpu_secs(child.id())) {
                    let _ = child.kill();
                    let _ = child.wait();
                    return OneResult::Hang;
                }
                std::thread::sleep(Duration::from_millis(5));
            }
        }
    }
}

fn same_kind(a: &OneResult, b: &OneResult) -> bool {
    matches!(
        (a, b),
        (OneResult::Crash(_), OneResult::Crash(_)) | (OneResult::Hang, OneResult::Hang)
    ) || matches!((a, b), (OneResult::Fail(x), OneResult::Fail(y)) if x.sig == y.sig)
}

/// shrink a crashing / hanging case with one fresh process per candidate
pub(crate) fn shrink_isolated(prop: &dyn Property, tier: Tier, bytes: Vec<u8>, kind: &OneResult, scratch: &Path) -> Vec<u8> {
    let mut cur = bytes;
    let mut budget = if matches!(kind, OneResult::Hang) { 40 } else { 120 };
    let timeout = if matches!(kind, OneResult::Hang) {
        Duration::from_millis(1500)
    } else {
        prop.case_timeout()
    };
    let mut chunk = (cur.len() / 2).max(1);
    while chunk >= 1 && budget > 0 {
        let mut i = 0;
        let mut progressed = false;
        while i < cur.len() && budget > 0 {
            let mut cand = cur.clone();
            let end = (i + chunk).min(cand.len());
            cand.drain(i..end);
            budget -= 1;
            if same_kind(&run_one_isolated(prop, tier, &cand, scratch, timeout), kind) {
                cur = cand;
                progressed = true;
            } else {
                i += chunk;
            }
        }
        if !progressed {
            if chunk == 1 {
                break;
            }
            chunk /= 2;
        }
    }
    cur
}

// ---------------------------------------------------------------------------------------------
// parent
// ---------------------------------------------------------------------------------------------

fn replay_dir(id: &str) -> PathBuf {
    verif_root().join("replays").join(id)
}
fn out_replay_dir(id: &str) -> PathBuf {
    verif_root().join("out").join("replays").join(id)
}

pub(crate) fn write_replay(prop: &dyn Property, bytes: &[u8], f: &Failure, tier: Tier) -> PathBuf {
    let dir = out_replay_dir(prop.id());
    let _ = std::fs::create_dir_all(&dir);
    let name = format!("{:016x}.json", fnv64(bytes) ^ fnv64(f.sig.as_bytes()));
    let path = dir.join(name);
    let decoded = std::panic::catch_unwind(std::panic::AssertUnwindSafe(|| prop.describe(bytes)))
        .unwrap_or(json!("<describe panicked>"));
    // a replay file must stay readable: very deep decoded forms are kept as text
    let decoded = if json_depth(&decoded) > 60 { json!({"deep": true, "text": decoded.to_string()}) } else { decoded };
    let j = json!({
        "property": prop.id(),
        "tier": tier.name(),
        "choices": hex(bytes),
        "failure": f.to_json(),
        "decoded": decoded,
        "structured": std::panic::catch_unwind(std::panic::AssertUnwindSafe(|| prop.structured(bytes))).ok().flatten(),
        "replay_cmd": format!("/verif/check {} --replay {}", prop.id(), path.display()),
    });
    std::fs::write(&path, serde_json::to_string_pretty(&j).unwrap()).unwrap();
    path
}

pub struct RunSummary {
    pub exit: i32,
}

pub fn parent_main(prop: &dyn Property, tier: Tier) -> i32 {
    install_quiet_panic_hook();
    let start = Instant::now();
    let seed: u64 = std::env::var("VERIF_SEED")
        .ok()
        .and_then(|s| s.trim().parse::<i64>().ok())
        .map(|x| x as u64)
        .unwrap_or(20260922);
    let nworkers: u64 = std::env::var("VERIF_WORKERS")
        .ok()
        .and_then(|s| s.parse().ok())
        .unwrap_or(16);
    let id = prop.id();
    let known = load_known(id);
    let scratch = verif_root().join("out").join("scratch").join(format!("{}_{}", id, std::process::id()));
    let _ = std::fs::create_dir_all(&scratch);

    let mut violations: Vec<(PathBuf, Failure)> = vec![];
    let mut known_hits: BTreeMap<String, u64> = BTreeMap::new();
    let mut inconclusive: Vec<String> = vec![];
    let mut replayed = 0u64;

    // ---- 1. replay tier (committed regression inputs), in-process under catch_unwind is not
    // enough for crashers, so each runs isolated
    if let Ok(rd) = std::fs::read_dir(replay_dir(id)) {
        let mut files: Vec<PathBuf> = rd.filter_map(|e| e.ok()).map(|e| e.path()).collect();
        files.sort();
        for f in files {
            if f.extension().map(|e| e != "json").unwrap_or(true) {
                continue;
            }
            let Ok(s) = std::fs::read_to_string(&f) else { continue };
            let Ok(j) = serde_json::from_str::<J>(&s) else { continue };
            let bytes = unhex(j["choices"].as_str().unwrap_or(""));
            replayed += 1;
            match run_file_isolated(prop, tier, &f, prop.case_timeout()) {
                OneResult::Pass => {}
                OneResult::Fail(fl) => {
                    if known.iter().any(|k| k.sig == fl.sig) {
                        *known_hits.entry(fl.sig.clone()).or_default() += 1;
                    } else {
                        violations.push((f.clone(), fl));
                    }
                }
                OneResult::Crash(sig) => {
                    let fl = Failure::new("no_crash", &format!("crash:signal{}{}", sig, prop.crash_context(&bytes)), "worker process died");
                    if known.iter().any(|k| k.sig == fl.sig) {
                        *known_hits.entry(fl.sig.clone()).or_default() += 1;
                    } else {
                        violations.push((f.clone(), fl));
                    }
                }
                OneResult::Hang => {
                    let fl = Failure::new("terminates", &format!("hang{}", prop.crash_context(&bytes)), "case did not finish within the watchdog");
                    if known.iter().any(|k| k.sig == fl.sig) {
                        *known_hits.entry(fl.sig.clone()).or_default() += 1;
                    } else if prop.states_termination() {
                        violations.push((f.clone(), fl));
                    } else {
                        inconclusive.push(format!("replay {} hangs", f.display()));
                    }
                }
            }
        }
    }

    // ---- 2. generated tier
    let exe = std::env::current_exe().unwrap();
    struct W {
        child: std::process::Child,
        out: PathBuf,
        progress: PathBuf,
        last_counter: u64,
        last_change: Instant,
        cpu_at_change: Option<f64>,
        done: bool,
        abnormal: Option<OneResult>,
    }
    let mut ws: Vec<W> = vec![];
    for k in 0..nworkers {
        let out = scratch.join(format!("w{}.json", k));
        let progress = scratch.join(format!("w{}.progress", k));
        let child = std::process::Command::new(&exe)
            .args(["worker", id, tier.name(), &seed.to_string(), &k.to_string(), &nworkers.to_string()])
            .arg(&out)
            .arg(&progress)
            .stdout(std::process::Stdio::null())
            .stderr(std::process::Stdio::null())
            .spawn()
            .expect("spawn worker");
        ws.push(W {
            child,
            out,
            progress,
            last_counter: 0,
            last_change: Instant::now(),
            cpu_at_change: None,
            done: false,
            abnormal: None,
        });
    }
    let case_timeout = prop.case_timeout();
    loop {
        let mut all_done = true;
        for w in ws.iter_mut() {
            if w.done {
                continue;
            }
            match w.child.try_wait().unwrap() {
                Some(status) => {
                    use std::os::unix::process::ExitStatusExt;
                    w.done = true;
                    if let Some(sig) = status.signal() {
                        w.abnormal = Some(OneResult::Crash(sig));
                    } else if status.code() != Some(0) {
                        w.abnormal = Some(OneResult::Crash(-status.code().unwrap_or(0)));
                    }
                }
                None => {
                    all_done = false;
                    // watchdog on the per-case progress counter
                    let counter = std::fs::read(&w.progress)
                        .ok()
                        .filter(|b| b.len() >= 8)
                        .map(|b| u64::from_le_bytes(b[0..8].try_into().unwrap()))
                        .unwrap_or(0);
                    if counter == u64::MAX {
                        // the worker is writing its result files: only a very long silence counts
                        if w.last_counter != u64::MAX {
                            w.last_counter = u64::MAX;
                            w.last_change = Instant::now();
                        } else if w.last_change.elapsed() > Duration::from_secs(1800) {
                            let _ = w.child.kill();
                            let _ = w.child.wait();
                            w.done = true;
                            w.abnormal = Some(OneResult::Hang);
                        }
                    } else if counter != w.last_counter || w.cpu_at_change.is_none() {
                        w.last_counter = counter;
                        w.last_change = Instant::now();
                        w.cpu_at_change = proc_cpu_secs(w.child.id());
                    } else if w.last_change.elapsed() > case_timeout && stalled(case_timeout, w.last_change.elapsed(), w.cpu_at_change, proc_cpu_secs(w.child.id())) {
                        let _ = w.child.kill();
                        let _ = w.child.wait();
                        w.done = true;
                        w.abnormal = Some(OneResult::Hang);
                    }
                }
            }
        }
        if all_done {
            break;
        }
        std::thread::sleep(Duration::from_millis(20));
    }

    // ---- 3. merge
    let mut cases = 0u64;
    let mut execs = 0u64;
    let mut discards: BTreeMap<String, u64> = BTreeMap::new();
    let mut labels: BTreeMap<String, u64> = BTreeMap::new();
    let mut nontrivial: Vec<u64> = vec![];
    let mut unstable_failures: Vec<String> = vec![];
    let mut workers_ended_early = 0u64;
    let mut unreproduced_hangs = 0u64;
    let mut further_hanging_workers = 0u64;
    let mut samples: Vec<J> = vec![];
    let mut shrunk_kinds: BTreeSet<String> = BTreeSet::new();
    for w in ws.iter() {
        if let Some(ab) = &w.abnormal {
            // identify the case that was running
            let bytes = std::fs::read(&w.progress)
                .ok()
                .filter(|b| b.len() >= 12)
                .map(|b| {
                    let len = u32::from_le_bytes(b[8..12].try_into().unwrap()) as usize;
                    b[12..(12 + len).min(b.len())].to_vec()
                })
                .unwrap_or_default();
            // once a hang has been confirmed and recorded as a violation, the verdict is settled:
            // further hanging workers are counted, not confirmed again (each confirmation costs two
            // watchdog periods, one after the other)
            if matches!(ab, OneResult::Hang) && violations.iter().any(|(_, f)| f.clause == "terminates") {
                further_hanging_workers += 1;
                workers_ended_early += 1;
                continue;
            }
            // confirm twice in fresh processes
            let r1 = run_one_isolated(prop, tier, &bytes, &scratch, case_timeout);
            let r2 = run_one_isolated(prop, tier, &bytes, &scratch, case_timeout);
            let confirmed = match (&r1, &r2) {
                (OneResult::Crash(_), OneResult::Crash(_)) => Some(r1.clone()),
                (OneResult::Hang, OneResult::Hang) => Some(OneResult::Hang),
                (OneResult::Fail(f), _) | (_, OneResult::Fail(f)) => Some(OneResult::Fail(f.clone())),
                _ => None,
            };
            match confirmed {
                None => {
                    // a watchdog kill whose case then runs fine twice in isolation says something
                    // about the machine, not about the property: the worker's checkpoint is still
                    // merged and the loss is reported; only a crash that does not reproduce, or
                    // losing most of the workers, makes the run inconclusive
                    let msg = format!("worker ended abnormally ({:?}) but its last case did not reproduce in isolation", ab);
                    if matches!(ab, OneResult::Hang) && matches!((&r1, &r2), (OneResult::Pass, OneResult::Pass)) {
                        unreproduced_hangs += 1;
                        println!("NOTE property={} {}", id, msg);
                    } else {
                        inconclusive.push(msg);
                    }
                }
                Some(OneResult::Fail(f)) => {
                    if known.iter().any(|k| k.sig == f.sig) {
                        *known_hits.entry(f.sig.clone()).or_default() += 1;
                    } else {
                        let p = write_replay(prop, &bytes, &f, tier);
                        violations.push((p, f));
                    }
                }
                Some(kind) => {
                    let kind_name = format!("{:?}", kind);
                    let small = if shrunk_kinds.insert(kind_name) {
                        shrink_isolated(prop, tier, bytes, &kind, &scratch)
                    } else {
                        bytes
                    };
                    let f = match &kind {
                        OneResult::Crash(sig) => Failure::new(
                            "no_crash",
                            &format!("crash:signal{}{}", sig, prop.crash_context(&small)),
                            "the process running the case died (signal / abort / native stack overflow)",
                        ),
                        _ => Failure::new("terminates", &format!("hang{}", prop.crash_context(&small)), "case does not finish within the watchdog (reproduced twice in isolation)"),
                    };
                    if known.iter().any(|k| k.sig == f.sig) {
                        *known_hits.entry(f.sig.clone()).or_default() += 1;
                    } else if matches!(kind, OneResult::Hang) && !prop.states_termination() {
                        let p = write_replay(prop, &small, &f, tier);
                        inconclusive.push(format!("confirmed hang, replay={}", p.display()));
                    } else {
                        let p = write_replay(prop, &small, &f, tier);
                        violations.push((p, f));
                    }
                }
            }
            workers_ended_early += 1;
        }
        let Ok(s) = std::fs::read(&w.out) else {
            if w.abnormal.is_none() {
                inconclusive.push("worker result missing".into());
            }
            continue;
        };
        let Ok(j) = serde_json::from_slice::<J>(&s) else {
            inconclusive.push("worker result unreadable".into());
            continue;
        };
        cases += j["cases"].as_u64().unwrap_or(0);
        execs += j["execs"].as_u64().unwrap_or(0);
        for (map, key) in [(&mut discards, "discards"), (&mut labels, "labels"), (&mut known_hits, "known_hits")] {
            if let Some(o) = j[key].as_object() {
                for (k, v) in o {
                    *map.entry(k.clone()).or_default() += v.as_u64().unwrap_or(0);
                }
            }
        }
        if let Some(a) = j["unstable"].as_array() {
            for x in a {
                if let Some(t) = x.as_str() {
                    unstable_failures.push(t.to_string());
                }
            }
        }
        if let Ok(raw) = std::fs::read(w.out.with_extension("fp")) {
            nontrivial.extend(raw.chunks_exact(8).map(|c| u64::from_le_bytes(c.try_into().unwrap())));
        }
        if let Some(a) = j["samples"].as_array() {
            for x in a {
                if samples.len() < 4 {
                    samples.push(x.clone());
                }
            }
        }
        if !j["failure"].is_null() {
            let fj = &j["failure"];
            let bytes = unhex(fj["choices"].as_str().unwrap_or(""));
            let f = Failure {
                clause: fj["failure"]["clause"].as_str().unwrap_or("?").to_string(),
                sig: fj["failure"]["sig"].as_str().unwrap_or("?").to_string(),
                detail: fj["failure"]["detail"].as_str().unwrap_or("").to_string(),
            };
            let p = write_replay(prop, &bytes, &f, tier);
            violations.push((p, f));
        }
    }

    // ---- 3b. thorough tier: coverage-guided stage (libFuzzer + AddressSanitizer)
    let mut fuzz_evidence = json!({"status": "not part of the quick tier"});
    let mut fuzz_runs = 0u64;
    if tier == Tier::Thorough {
        if std::env::var_os("VERIF_NO_FUZZ").is_some() {
            fuzz_evidence = json!({"status": "skipped (VERIF_NO_FUZZ set)"});
        } else {
            let r = crate::fuzzstage::run(prop, tier, seed, nworkers, &known, &mut violations, &mut known_hits, &mut inconclusive, &scratch);
            fuzz_evidence = r.evidence;
            fuzz_runs = r.runs;
            execs += r.execs;
        }
    }

    nontrivial.sort_unstable();
    nontrivial.dedup();
    if unreproduced_hangs * 2 > nworkers {
        inconclusive.push(format!("{} of {} workers were stopped by the watchdog on cases that run fine in isolation", unreproduced_hangs, nworkers));
    }

    // label floors
    for (l, floor) in prop.label_floors() {
        let share = *labels.get(l).unwrap_or(&0) as f64 / cases.max(1) as f64;
        if share < floor && violations.is_empty() {
            inconclusive.push(format!("label '{}' share {:.4} below floor {:.4}", l, share, floor));
        }
    }
    let discarded: u64 = discards.values().sum();
    if cases > 0 && discarded as f64 / cases as f64 > 0.25 && violations.is_empty() {
        inconclusive.push(format!("discard rate {}/{} too high", discarded, cases));
    }

    let wall = start.elapsed().as_secs_f64();

    // ---- 4. report
    for k in &known {
        let hits = known_hits.get(&k.sig).copied().unwrap_or(0);
        println!("KNOWN-FINDING: property={} sig={} hits={} {}", id, k.sig, hits, k.text);
    }
    // de-duplicate violations by signature for printing (all are kept in evidence)
    let mut seen = BTreeSet::new();
    for (p, f) in &violations {
        if seen.insert(f.sig.clone()) {
            println!("VIOLATION property={} replay={}", id, p.display());
            println!("  clause={} sig={}\n  {}", f.clause, f.sig, f.detail.chars().take(1500).collect::<String>());
        }
    }
    for m in &inconclusive {
        println!("INCONCLUSIVE property={} {}", id, m);
    }

    if samples.is_empty() {
        samples.push(json!("no non-trivial case was generated in this run"));
    }
    let evidence = json!({
        "property_id": id,
        "tier": tier.name(),
        "seed": seed as i64,
        "level": prop.level(),
        "coverage": {
            "evaluations": cases + replayed + fuzz_runs,
            "generated_by_proptest": cases,
            "generated_by_libfuzzer": fuzz_runs,
            "libfuzzer_stage": fuzz_evidence,
            "real_code_executions": execs,
            "distinct_nontrivial": nontrivial.len(),
            "rule": prop.rule(),
            "samples": samples,
            "labels": labels,
            "discarded": discards,
            "replayed_regression_inputs": replayed,
            "excluded_by_known_finding": known_hits,
            "workers": nworkers,
            "inconclusive": inconclusive,
            "unstable_failures_not_reproduced_after_shrinking": unstable_failures,
            "workers_ended_early": workers_ended_early,
            "watchdog_stops_not_reproduced_in_isolation": unreproduced_hangs,
            "further_hanging_workers_not_reconfirmed": further_hanging_workers,
        },
        "assumptions": prop.assumptions(),
        "wall_s": wall,
        "violations": violations.len(),
    });
    let evdir = verif_root().join("evidence");
    let _ = std::fs::create_dir_all(&evdir);
    std::fs::write(evdir.join(format!("{}.json", id)), serde_json::to_string_pretty(&evidence).unwrap())
        .expect("write evidence");
    let _ = std::fs::remove_dir_all(&scratch);

    println!(
        "{} {}: cases={} execs={} distinct_nontrivial={} discarded={} known_hits={} violations={} wall={:.1}s",
        id,
        tier.name(),
        cases,
        execs,
        nontrivial.len(),
        discarded,
        known_hits.values().sum::<u64>(),
        violations.len(),
        wall
    );
    if !violations.is_empty() {
        1
    } else if !inconclusive.is_empty() {
        2
    } else {
        0
    }
}

pub fn replay_main(prop: &dyn Property, file: &Path) -> i32 {
    install_quiet_panic_hook();
    let s = std::fs::read_to_string(file).expect("replay file");
    let j: J = serde_json::from_str(&s).expect("replay json");
    let bytes = unhex(j["choices"].as_str().unwrap_or(""));
    let tier = Tier::parse(j["tier"].as_str().unwrap_or("quick"));
    if j["structured"].is_null() {
        println!("decoded: {}", serde_json::to_string_pretty(&prop.describe(&bytes)).unwrap());
    } else {
        println!("decoded (saved with the replay): {}", serde_json::to_string_pretty(&j["decoded"]).unwrap());
    }
    if j["engine"].as_str() == Some("libfuzzer") {
        // a finding that only the sanitizer build shows
        return match crate::fuzzstage::replay(prop, &bytes) {
            Err(e) => {
                println!("INCONCLUSIVE property={} {}", prop.id(), e);
                2
            }
            Ok(None) => {
                println!("pass (sanitizer build)");
                0
            }
            Ok(Some(f)) => {
                if load_known(prop.id()).iter().any(|k| k.sig == f.sig) {
                    println!("KNOWN-FINDING: property={} sig={}", prop.id(), f.sig);
                    0
                } else {
                    println!("VIOLATION property={} replay={}", prop.id(), file.display());
                    println!("clause={} sig={}\n{}", f.clause, f.sig, f.detail);
                    1
                }
            }
        };
    }
    let out = run_replay_json(prop, &j, tier);
    match out.verdict {
        Verdict::Fail(f) => {
            let known = load_known(prop.id());
            if known.iter().any(|k| k.sig == f.sig) {
                println!("KNOWN-FINDING: property={} sig={}", prop.id(), f.sig);
                println!("{}", f.detail);
                0
            } else {
                println!("VIOLATION property={} replay={}", prop.id(), file.display());
                println!("clause={} sig={}\n{}", f.clause, f.sig, f.detail);
                1
            }
        }
        Verdict::Discard(w) => {
            println!("discarded: {}", w);
            0
        }
        Verdict::Pass => {
            println!("pass (labels: {:?}, nontrivial: {})", out.labels, out.nontrivial);
            0
        }
    }
}

// ---------------------------------------------------------------------------------------------
// fork probe: run a closure that is expected to be able to kill the process in a forked child
// ---------------------------------------------------------------------------------------------

#[derive(Debug, Clone, PartialEq, Eq)]
pub enum Probe {
    Returned,
    Signal(i32),
    Timeout,
}

/// Runs `f` in a forked child of this (single-threaded) worker and reports how the child ended.
/// Used for inputs that are known to be able to overflow the native stack, so that the worker
/// itself survives and the campaign goes on.
pub fn fork_probe(timeout: Duration, f: impl FnOnce()) -> Probe {
    unsafe {
        let pid = libc::fork();
        if pid < 0 {
            return Probe::Timeout;
        }
        if pid == 0 {
            // child: silence the "has overflowed its stack" message
            libc::close(2);
            // no core file for a probe that is expected to be able to die
            let no_core = libc::rlimit { rlim_cur: 0, rlim_max: 0 };
            libc::setrlimit(libc::RLIMIT_CORE, &no_core);
            f();
            libc::_exit(0);
        }
        let start = Instant::now();
        let cpu0 = proc_cpu_secs(pid as u32);
        loop {
            let mut status: libc::c_int = 0;
            let r = libc::waitpid(pid, &mut status, libc::WNOHANG);
            if r == pid {
                if libc::WIFSIGNALED(status) {
                    return Probe::Signal(libc::WTERMSIG(status));
                }
                return Probe::Returned;
            }
            if start.elapsed() > timeout && stalled(timeout, start.elapsed(), cpu0, proc_cpu_secs(pid as u32)) {
                libc::kill(pid, libc::SIGKILL);
                libc::waitpid(pid, &mut status, 0);
                return Probe::Timeout;
            }
            std::thread::sleep(Duration::from_millis(1));
        }
    }
}
