#!/usr/bin/env python3
"""tools/seed_prompt.py <ID> [area hint]  -> prompt for a blind sub-agent (DESIGN.md 8.6).

The sub-agent gets this text and nothing else: the property as given in properties.jsonl and a
scratch git worktree of /repo under /tmp/wt/<ID> (git -C /repo worktree add --detach /tmp/wt/<ID> HEAD).
It never sees /verif. Its output (/tmp/wt/<ID>/seeded/{patch.diff,demo.rs,meta.json}) is confirmed
with tools/seeded_verify.sh <ID> <suffix> and evaluated with tools/mutant.sh.
"""
import json, sys, os

ROOT = os.path.dirname(os.path.dirname(os.path.abspath(__file__)))
pid = sys.argv[1]
hint = sys.argv[2] if len(sys.argv) > 2 else None
prop = next(json.loads(l) for l in open(os.path.join(ROOT, "properties.jsonl")) if json.loads(l)["id"] == pid)
text = "%s — %s\n\nSTATEMENT: %s\n\nQUANTIFIER: %s\n" % (pid, prop.get("title", ""), prop.get("statement", ""), (prop.get("quantifier") or {}).get("text", "") if isinstance(prop.get("quantifier"), dict) else prop.get("quantifier", ""))
d = "/tmp/wt/%s" % pid
hint_line = ""
if hint:
    hint_line = ("Area hint (to keep this exercise varied): %s.\nOther people are building in sibling directories at the same "
                 "time, so limit cargo to 2 jobs (`cargo ... -j 2`).\n" % hint)
print(f"""You are working in a scratch git worktree of the Rust project caolo-game/cao-lang at {d} (Cao-Lang: a node/card-based scripting language with an AST-to-bytecode compiler, a stack VM, a mark-sweep GC and custom hash tables; the crate is {d}/cao-lang). Work ONLY inside {d}. Never read or touch /repo or /verif. There is no network; build with --offline. Use `export CARGO_TARGET_DIR={d}/target` for every cargo command.

Here is a semantic property of cao-lang that should always hold:

{text}
Your task: make ONE realistic change to the source under {d}/cao-lang/src - the kind of regression a refactoring, clean-up or 'optimisation' could plausibly introduce - that BREAKS this property, such that:
 (1) the crate still compiles;
 (2) the existing test suite still passes unchanged: `cd {d} && cargo test --workspace --offline` (it takes about a minute the first time);
 (3) the breakage needs something SPECIFIC to manifest - a particular multi-step sequence of operations, an unusual input, a collection or fault at a particular point, a particular nesting / call depth, or two cooperating code sites that each look fine alone. It must NOT be something that ordinary simple use would expose at once (e.g. do not simply break every addition).
{hint_line}Do not use or modify anything behind the cargo feature `verif-hooks` (code under #[cfg(feature = "verif-hooks")] and the file cao-lang/src/verif.rs must stay untouched), and do not edit existing tests.

Then write a demonstration: a new integration test file {d}/cao-lang/tests/seeded_demo.rs (using only the public API of the crate, e.g. cao_lang::prelude::*, building programs from Card/Function/Module values like the existing tests in {d}/cao-lang/tests do) that FAILS with your change and PASSES without it. Verify both directions yourself: save the source change with `git diff -- cao-lang/src > {d}/my.diff`, undo it with `git apply -R {d}/my.diff`, run the demo test, re-apply it with `git apply {d}/my.diff`, run it again. NEVER use `git stash`, `git clean`, `git reset` or `git checkout` of other paths: the stash and refs are shared with other worktrees that other people are using right now.

Finally create the directory {d}/seeded/ containing:
 - patch.diff : the output of `git diff -- cao-lang/src` (the source change only, NOT the demo test);
 - demo.rs : a copy of the demonstration test;
 - meta.json : {{"property": "{pid}", "summary": "...what the change does...", "needs_to_manifest": "...what specific situation is needed...", "files_changed": [...], "how_verified": "...commands you ran and what they printed..."}}.
Leave the source change applied in the worktree. In your final answer report in 5-10 lines what you changed, what is needed for it to manifest, and the results of the two verification runs.""")
