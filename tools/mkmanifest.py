#!/usr/bin/env python3
"""Regenerates /verif/MANIFEST.json from the table below (keeps it schema-valid at all times)."""
import json, subprocess, os
ROOT = os.path.dirname(os.path.dirname(os.path.abspath(__file__)))
props = [json.loads(l)["id"] for l in open(os.path.join(ROOT, "properties.jsonl"))]

# id -> (level category, technique, level text, level note, design ref)
CLAIMED = {
 "C01": ("exploration", "differential testing of generated well-scoped programs: compiled bytecode on the real VM vs. an independent reference interpreter (proptest-driven, shrinking whole programs)",
         "Whole programs (functions, closures, loops, early returns, static/dynamic/native calls, tables, submodule) are generated well-scoped by construction and run both through compile+VM and through a reference AST interpreter that shares no code or representation with cao-lang; outcome kind, all globals read by name and the host-call log must agree exactly. Class coverage (calls above other frames, loops with locals, return in loop, dynamic calls, table ops, >16 globals) is measured and has floors. Search, not proof.",
         "Trusts the reference interpreter (src/refsem.rs) as the meaning of the card language; situations the language leaves undefined are discarded by the reference, never guessed. No collection runs (256 MiB limit).",
         "DESIGN.md section 4, C01"),
 "C02": ("fault_enumeration", "schedule enumeration: generated allocation-heavy programs re-run under a forced collection at EVERY single allocation point (plus every-allocation, random subsets and the natural trigger), differential against the collection-free run, with quarantined+poisoned swept objects and a reachability audit",
         "Generated programs (temporaries as operands of table instructions, closures called on the spot or by host functions, captured strings/tables, allocating and re-entering natives, std functions with allocating key functions) and host-API value insertion are executed once without collections and then once per allocation index with a collection forced exactly there (exhaustive over the program's allocation points when it has <= 48 of them), under a collection at every allocation, under two random subsets and under the natural trigger with a small limit. Swept objects keep a poisoned header (hook), so a stale reference is recognised deterministically: observation equality with the collection-free run, plus an audit that nothing reachable from stack / globals / tables / closures / captured cells is a swept object. Workers are isolated processes (crashes are reported).",
         "A forced collection calls the same RuntimeData::gc at the same place the natural trigger does. Quarantine keeps only the object header alive; real use-after-free of payload bytes is therefore observed as a poisoned-object read, not under ASan.",
         "DESIGN.md section 4, C02"),
 "C03": ("exploration", "metamorphic and counter-based testing of generated (also non-terminating) programs under generated budget sets (proptest-driven)",
         "Programs built without the termination rule (while(1), unbounded recursion, repeat 10^9, looping callbacks under every re-entering std function and under host natives, up to three native->script levels) and ordinary generated programs are run under budgets from 1..64, 1..20000 and k-1/k/k+1/k/2 around the complete run's length k. An independent per-dispatch counter (hook) must never exceed the budget; runs with a sufficient budget must reproduce the complete run exactly; insufficient budgets must end in Timeout with a prefix-consistent host log; never-finishing programs must time out under every budget.",
         "Trusts the hook counter (one increment per dispatched instruction, independent of the budget field) and the isolated-process watchdog for real hangs. Re-entering natives are reached through the library function, a CallNative card and a dynamic call of the native as a function value.",
         "DESIGN.md section 4, C03"),
 "C04": ("exploration", "generated-input totality testing in isolated worker processes with a watchdog (proptest-driven; fork probes for inputs known to be able to kill the process)",
         "Four generated families: arbitrary card trees through the JSON and YAML loaders into the compiler (and, when they compile, into the VM), structured compile stress around every documented limit (globals, locals, upvalues, functions, card nesting, submodule depth, super chains), run-time stress templates (recursion, wide expressions, numeric boundaries, wrong operand types, cyclic tables, reserved-hash keys, tiny budgets, odd stdlib inputs) and random well-scoped programs under random budget/value-stack/call-stack sizes. A case passes when compile and run return a value; panics are caught per case, signals and hangs by the parent process, which re-runs the case twice in isolation before reporting. Search, not proof.",
         "Memory limits are not varied (collections are C02/C05). Which of Ok/Err is returned is asserted only where a template forces it (value-stack exhaustion, calling a non-function). Added after blind seeded changes: tables holding keys that can not be found again (NaN, a table changed after use as a key) under every table operation and std function; 236-257 locals followed by a construct needing several hidden local slots; loops nested up to 69 deep.",
         "DESIGN.md section 4, C04"),
 "C05": ("exploration", "shadow-ledger invariant checking over generated programs, garbage loops and host-API allocator histories (proptest-driven), with an independent reachability walker",
         "Every allocator event (request, alloc, dealloc, refusal - hook) of generated table-heavy programs under limits 4 KiB..1 MiB, of bounded-live-data garbage loops run for n and 10n iterations, and of host-API histories (strings, tables, guards, stack, gc, clear, set_memory_limit) is replayed into a shadow ledger: counter == outstanding charges (+ the request being served), never above the limit, refusals change nothing; after a final collection the live object list must equal the set reachable from stack/globals/frames/open upvalues/guards computed by an independent walker; after clear the counter is 0 and nothing is outstanding; OutOfMemory is accepted only if reachable bytes + request exceed half the limit; garbage loops must not fail for any n.",
         "The ordered key list of tables and the upvalue list of closures are plain Vecs outside the allocator and are not in the ledger (observation, not asserted). 'Refused only if reachable data + request do not fit' is asserted in its exact differential forms: the schedule differential under a limit (natural trigger vs. collect at every allocation vs. no collection but the one before refusing), the retained-set garbage loops (must not fail when retained bytes + 6 KiB fit) and the retry of every refused host request after an explicit collection.",
         "DESIGN.md section 4, C05"),
 "C06": ("exploration", "differential testing against a by-reference-cell reference interpreter with a closure-biased program generator (proptest-driven)",
         "Same differential as C01 with a generator that creates closures in frames above other values, in loop bodies, nested, in a submodule, and calls each stored closure twice around a write to a visible variable (also through re-entering natives); every closure body logs a unique tag so a wrong body is visible; the reference uses shared Rc cells with a fresh cell per scope entry.",
         "Same trusted base as C01.",
         "DESIGN.md section 4, C06"),
 "C07": ("exploration", "proptest-driven model-based testing of table operation histories against an insertion-ordered Vec model, through the host API and (one case in 24) as a generated card program whose expected host-call log comes from the same model",
         "Random histories (<=120 ops) over 1-4 aliased tables through the host API (insert/get/append/pop/remove/len/nth_key/iter/keys), keys chosen to collide in the table's hash part at every capacity of its growth sequence and to probe value equality (fresh string objects per lookup, ints/reals/nil, reserved-hash ints); a Vec<(key,value)> model is compared after every operation on every table: length, full iteration order, keys(), nth_key and get of every present key. Search, not proof; the script-card path is covered by the program-level checks, not here.",
         "Trusts the 20-line Vec model; memory limit raised so that no collection interferes (GC is C02's subject). Script family: every table reached per operation through a variable, a global alias, a function parameter, a captured variable or a holder-table field; the reference interpreter must agree with the model (else a harness fault is reported); scripts never make a table reachable from itself nor read a row beyond the end.",
         "DESIGN.md section 4, C07"),
 "C15": ("exploration", "planted-fault testing: generated programs with one planted failing card at a generated position/call depth, expected trace computed by an independent child-numbering table (proptest-driven)",
         "An error-free generated program is assembled around one planted fault card (13 run-time and compile-time fault kinds) in a random operand slot, statement shape and nesting (if/else/repeat/while/composite/closure invoked on the spot), at the end of a chain of 0-4 static/dynamic script calls partly in a submodule, always followed by more code. The error kind, trace[0] (index equality and resolution through Module::get_card to the planted CardId) and trace[1..] (call cards innermost to outermost, closure invocations included) are asserted; for compile faults loc must resolve to the planted card. A reference run confirms that the plan reaches the planted card.",
         "Second family: recursion cycles of 1-2 functions (with / without parameters, locals, pending operands) with planted faults and unset-variable reads at depth 1..7, call-stack / value-stack exhaustion and timeouts; the number of active activations is read from a counter global. Memory exhaustion and chains through native re-entry are not planted. One extra trailing trace entry is accepted as the program entry.",
         "DESIGN.md section 4, C15"),
 "C16": ("exploration", "proptest-driven model-based testing of edit histories against a plain tree-edit model with an independent child-numbering table",
         "Arbitrary modules (every card kind in every slot, unique card ids) and histories of get/insert/remove/replace/swap/walk plus the law pairs insert;remove, replace;replace-back, swap;swap, with indices valid w.r.t. the evolving model or invalid in a specific way; Ok/Err, the resulting id-tree, serde_json text after failed edits and child count/enumeration/lookup agreement are checked after every op.",
         "Trusts the tree model and its list-vs-fixed-slot table (taken from the doc comment of insert_child); swap(a,a) is taken to be the identity. A third of the modules have submodules with their own cards, which the parent module's walk and edit API must neither report nor touch.",
         "DESIGN.md section 4, C16"),
 "C17": ("exploration", "history-based differential testing: a reused VM against newly built VMs, repeated histories, and repetition sweeps (proptest-driven)",
         "Histories of 2-40 steps (run with a budget, clear, set_memory_limit) over one VM with programs ending in every way (Ok, Timeout, OutOfMemory, Stackoverflow, CallStackOverflow, native error, error inside a native->script callback, open upvalues, garbage beyond the collection threshold): every run directly after clear / set_memory_limit is replayed on a newly built VM and must match in observation, dispatched instructions, allocated bytes, next collection threshold, number of collections and value-stack height; each history is executed twice and must give identical observation sequences; repetition sweeps run one program 3..300 times with and (for stack-balanced successful programs) without clear and require every run to equal the first.",
         "Stack sizes are fixed at 256; generated programs never read a global before assigning it within the same run; a template does (its only assignment is in a branch not taken), and the set of globals the host finds defined after a run is part of the comparison.",
         "DESIGN.md section 4, C17"),
 "C18": ("exploration", "differential testing of generated native-call programs against a conversion model in the reference interpreter, plus stack-height invariants measured inside re-entering natives (proptest-driven)",
         "Natives with 25 typed signatures (arity 0-4 over every supported parameter type) and value-returning natives are called with arguments of every kind through CallNative, native values + DynamicCall and re-entering natives, from main, from frames above other values and in loops; the reference interpreter applies the documented conversions and predicts recorded parameters, results, TaskFailure wrapping and which parameter must be named as rejected. Re-entry: the harness natives call0/call1/call2 measure value-stack and call-stack heights (hook) around every successful run_function; generated programs re-enter with script functions, capturing closures and natives as callees, nested. Reserved names must be unregistrable.",
         "Trusts the conversion model (written from value.rs' documented TryFrom table) and the inspection hooks; when several parameters are unconvertible any of them may be named.",
         "DESIGN.md section 4, C18"),
 "C19": ("exploration", "proptest-driven algebraic-law checking over generated value triples with a numeric reference model for the ordering",
         "Random triples of host-constructed values with deliberately related members (equal-content copies incl. one built with another storage history - rows appended and popped again -, reordered/prefix/deep-different tables, int/real twins, length twins, signed zeros, 2^53/2^63 edges); all ordered pairs are checked against the equivalence, hash-consistency (std hash and table-key aliasing), order/equality coherence, asymmetry and numeric-model laws exactly on the domains the statement gives. Search, not proof.",
         "The numeric model encodes the statement's coercions (nil=0, string/table=length against a number); ints beyond 2^53 against reals and reordered tables are observed, not asserted.",
         "DESIGN.md section 4, C19"),
 "C08": ("exploration", "differential testing of generated module trees against an independent name-resolution model plus the reference interpreter (proptest-driven)",
         "Module trees (depth <=3) in which the same function names occur in many modules, with relative function imports, module imports, super. chains and call sites in every spelling (absolute, bare, relative dotted, function import, module-prefix import; static and through function values). An independent resolver implements the stated lookup order; the reference interpreter runs with the model's targets and the VM with the spelled names, and the host logs (body tags, parameters in declaration order, caller sentinels, return values) must agree. Enumerated error classes (duplicate function in a module, duplicate module, root module std, import without dot, ambiguous imports, unresolvable call, invalid module name) are planted in a share of the trees and must be compile errors.",
         "Call graphs are acyclic; unused imports of missing targets and malformed-but-dotted imports are not generated because the statement does not fix their status; 32-bit label collisions between cards and functions are not attacked. The name pools contain boundary-shift names (a.b.f / ab.f / a.bf), a module name ending in the keyword super, and planted unresolvable calls are mostly near misses built from the names in use.",
         "DESIGN.md section 4, C08"),
 "C09": ("exploration", "differential testing of generated std-library calls against direct specifications of the contracts inside the reference interpreter (proptest-driven)",
         "Programs with 1-3 calls of every std function on generated tables (sizes 0/1/2 over-represented, ties, int/real mixes, nil, string, nested-table values, arbitrary keys) or non-table inputs, with generated callbacks of arity 1-3 (closures and script functions; pure, allocating, capturing, counting, nested library call), spelled std.X or imported. The contracts of the property are written as specifications (call_std in refsem.rs); results and the inputs after the call are logged and must equal the specification's.",
         "Callbacks neither log nor write globals (invocation count/order is not part of the contract); ordering functions only see mutually comparable values; key functions of *_by_key take two parameters.",
         "DESIGN.md section 4, C09"),
 "C10": ("exploration", "independent bytecode verifier over every compiled output of three program generators (proptest-driven)",
         "Every module that compiles - well-scoped programs, closure-heavy programs and arbitrary card trees - is decoded front to back by a verifier with its own opcode and operand-width table (cross-checked against the crate's table through a hook) and checked for: known opcodes, complete operands, final Exit, jump/label/trace targets on instruction starts, labelled function/closure handles with consistent arity, complete UTF-8 strings, local/upvalue/global index ranges, id<->name bijection, trace coverage, and agreement with the crate's disassembler walk. All bytes of all outputs, not only executed paths.",
         "Trusts the verifier's own table (47 entries, cross-checked at start-up); arity of the named definition is checked for consistency across uses, not against the source.",
         "DESIGN.md section 4, C10"),
 "C11": ("exploration", "round-trip and differential testing over generated modules, compiled programs and runtime values (proptest-driven)",
         "Generated modules (well-scoped programs incl. >16 globals, arbitrary card trees) are written to JSON and YAML, read back and compiled: the result must be byte-identical / map-equal to compiling the original (or fail with the same variant). Every compiled program is sent through JSON, CBOR and bincode: the decoded program must be field-wise equal as maps, pass the independent bytecode verifier and run to the same observation. Generated values (nested tables up to 60 entries, -0.0, subnormals) go value -> OwnedValue -> each format -> OwnedValue' -> insert into a fresh VM and must be deeply equal with order preserved.",
         "NaN / infinities excluded (not representable in serde_json); card ids are not serialized by design. Decoded values are inserted into a VM that never collects, one that collects at every allocation and two with small limits (256 KiB, 32 KiB; a value that does not fit is refused, which is not a failure); swept objects are quarantined so a lost part is recognised without reading freed memory.",
         "DESIGN.md section 4, C11"),
 "C12": ("exploration", "proptest-driven model-based testing of operation histories against std HashMap, with controlled-hash keys and fail-at-n allocation fault sweeps",
         "Random histories (<=200 ops) over keys whose hash bytes the generator chooses (collision groups for every capacity of the growth sequence, wrap-around homes, equal-hash twins, the reserved hash 0), compared with std::collections::HashMap after every operation including full get/contains/iter of every key ever used, a per-instance drop ledger and an allocator ledger; one third of the cases re-run the history once per allocation index with that allocation failing (exhaustive over the single failure points of that history). Search, not proof.",
         "Trusts std HashMap as reference and the 32-bit FNV/home formulas only for *choosing* keys (a wrong formula weakens coverage labels, not soundness). Clone is exempt from failure injection.",
         "DESIGN.md section 4, C12"),
 "C13": ("exploration", "proptest-driven model-based testing of operation histories against std HashMap<u32,_>, handles constructed by home slot, isolated-process watchdog for termination",
         "Random histories (<=200 ops, mixed and single insertion path) over non-zero handles constructed from their home slot (multiplier inverse mod 2^32), initial capacities None and 0..=70, both allocators; compared with std HashMap after every op (results, len, get/contains of every handle used, iter each-once, drop ledger, allocator ledger). Each worker is a separate process; a case that stops making progress is re-run twice in isolation and reported as a violation (the property states termination).",
         "Trusts std HashMap as reference; Index on an absent handle is expected to panic (documented assert).",
         "DESIGN.md section 4, C13"),
 "C14": ("exploration", "proptest-driven model-based testing of operation histories against a Vec reference model",
         "Random search over (capacity, history) pairs with a Vec-based bounded-stack model compared after every operation (result, length, full contents, drop ledger); capacities 1..40 with 1-4 over-represented; no proof of absence.",
         "Trusts the reference model (40 lines) and that clear_until is only called with h <= len; push with exactly one free slot may go either way, but a write at the height must do what push does in the same state (twin stack) and return nil as the old value.",
         "DESIGN.md section 4, C14"),
}
REASON_PENDING = "check not built yet in this round (planned in DESIGN.md section 4); not claimed until its check exists"

def hook_commits():
    try:
        out = subprocess.check_output(["git", "-C", "/repo", "log", "--format=%h %s"], text=True)
        return [l.split()[0] for l in out.splitlines() if l.split(" ", 1)[1].startswith("verif-hooks:")]
    except Exception:
        return []

checks = []
for pid in props:
    if pid not in CLAIMED:
        continue
    cat, tech, text, note, ref = CLAIMED[pid]
    checks.append({
        "property_id": pid,
        "quick_cmd": f"./check {pid} quick",
        "thorough_cmd": f"./check {pid} thorough",
        "evidence_file": f"/verif/evidence/{pid}.json",
        "replay_cmd_template": f"./check {pid} --replay {{path}}",
        "engine": "caoverif",
        "level_claimed": {"category": cat, "text": text, "design_ref": ref},
        "level_note": note,
        "technique": tech,
    })
manifest = {
    "version": 1,
    "setup_cmd": "cd /verif/harness && CARGO_NET_OFFLINE=true cargo build --profile verif --bin check",
    "hooks": {
        "guard": "verif-hooks",
        "enable": "cargo feature `verif-hooks` of the cao-lang crate, switched on by the harness' path dependency (cao-lang = { path = \"/repo/cao-lang\", features = [\"verif-hooks\"] })",
        "baseline_off_cmd": "cd /repo && cargo test --workspace --no-fail-fast --offline",
        "source_commits": hook_commits(),
        "add_only": True,
    },
    "engines": [{
        "name": "caoverif",
        "path": "/verif/harness",
        "serves_properties": [c["property_id"] for c in checks],
        "kind_free_text": "Rust harness: choice-stream generators driven by proptest (TestRunner, fixed seed from VERIF_SEED, failure_persistence off) in 16 isolated worker processes; reference models / reference interpreter as oracles; shrunk failures written as replay files; thorough tier adds a coverage-guided stage: one libFuzzer target per property in /verif/fuzz (cargo-fuzz, AddressSanitizer) over the same decoders and oracles, saved inputs re-confirmed in isolation",
    }],
    "checks": checks,
    "not_applicable": [{"property_id": p, "reason": REASON_PENDING} for p in props if p not in CLAIMED],
    "notes": "Every check: ./check <ID> quick|thorough rebuilds the harness against /repo's working tree (feature verif-hooks), replays /verif/replays/<ID>/, then runs the generated tier (quick: proptest stage; thorough: 40x proptest stage + libFuzzer/ASan stage, DESIGN.md 8.7). Exit 0 held, 1 VIOLATION line, 2 build failure / inconclusive. New failing inputs are written under /verif/out/replays/<ID>/ (git-ignored). Known findings: /verif/KNOWN_FINDINGS.txt.",
}
json.dump(manifest, open(os.path.join(ROOT, "MANIFEST.json"), "w"), indent=1)
print("claimed:", [c["property_id"] for c in checks])
