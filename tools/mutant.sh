#!/bin/bash
# tools/mutant.sh <patch> <ID> [<ID>...]   apply a seeded defect to /repo, run the quick checks, undo.
# prints one line per check: CAUGHT (exit 1) / MISSED (exit 0) / OTHER (exit code)
set -u
P="$(readlink -f "$1")"; shift
cd /repo || exit 2
if ! git diff --quiet; then echo "repo has uncommitted changes"; exit 2; fi
if ! git apply --check "$P" 2>/dev/null; then echo "SKIP (does not apply): $P"; exit 0; fi
git apply "$P"
for ID in "$@"; do
  # evidence files belong to runs on the unchanged tree: keep them out of the mutant run's way
  cp -f /verif/evidence/$ID.json /verif/out/evidence.$ID.keep 2>/dev/null
  out=$(/verif/check "$ID" quick 2>&1); rc=$?
  mv -f /verif/out/evidence.$ID.keep /verif/evidence/$ID.json 2>/dev/null
  v=$(echo "$out" | grep -m1 "^VIOLATION" | cut -c1-60)
  c=$(echo "$out" | grep -m1 "clause=" | sed 's/^ *//' | cut -c1-110)
  case $rc in 1) r=CAUGHT;; 0) r=MISSED;; *) r="OTHER($rc)";; esac
  echo "$r $ID $(basename $P) :: $c"
done
git checkout -- . 
