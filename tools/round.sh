#!/bin/bash
# tools/round.sh <suffix> <minutes> : as blind sub-agents finish (/tmp/wt/<ID>/seeded/patch.diff + meta.json), confirm each change
# (tools/seeded_verify.sh) and run the property's quick check against it (tools/mutant.sh); one at a time, since
# mutant.sh patches /repo. Results: /verif/seeded/RESULTS<suffix>.txt
SUF=$1; MIN=${2:-45}; END=$(( $(date +%s) + MIN*60 ))
OUT=/verif/seeded/RESULTS$SUF.txt; touch $OUT
while [ $(date +%s) -lt $END ]; do
  did=0
  for ID in $(cat /tmp/wt/ids.txt); do
    grep -q "^$ID$SUF " $OUT && continue
    [ -f /tmp/wt/$ID/seeded/patch.diff ] && [ -f /tmp/wt/$ID/seeded/meta.json ] && [ -f /tmp/wt/$ID/seeded/demo.rs ] || continue
    # give the agent a moment to finish writing
    sleep 5
    v=$(/verif/tools/seeded_verify.sh $ID $SUF 2>&1 | tr '\n' ' ')
    if echo "$v" | grep -q "demo without change: test result: ok" && echo "$v" | grep -q "demo with change:    test result: FAILED" && echo "$v" | grep -q "failed=0"; then
      r=$(/verif/tools/mutant.sh /verif/seeded/$ID$SUF/patch.diff $ID 2>&1 | tail -1)
      echo "$ID$SUF $r" >> $OUT
    else
      echo "$ID$SUF NOT-CONFIRMED $v" >> $OUT
    fi
    did=1
    [ $(date +%s) -lt $END ] || break
  done
  [ $did = 0 ] && sleep 20
  [ $(wc -l < $OUT) -ge 19 ] && break
done
echo "ROUND-DONE" >> $OUT
