#!/bin/bash
# tools/seeded_verify.sh <ID> [suffix] : confirm a sub-agent's seeded change in its scratch worktree /tmp/wt/<ID>
#   1. the patch applies to a clean checkout and the existing suite passes with it (demo moved aside)
#   2. the demo fails with the change and passes without it
# then copy patch.diff / demo.rs / meta.json to /verif/seeded/<ID><suffix>/
# Never uses git stash / git clean (the stash is shared between worktrees).
set -u
ID=$1; SUF=${2:-}; D=/tmp/wt/$ID
export CARGO_TARGET_DIR=$D/target CARGO_NET_OFFLINE=true
cd $D || exit 2
[ -f seeded/patch.diff ] || { echo "no seeded/patch.diff"; exit 2; }
S=/tmp/wt/$ID.seeded; rm -rf $S; cp -r seeded $S
git checkout -q -- . ; rm -f cao-lang/tests/seeded_demo.rs
if ! git apply --check $S/patch.diff; then echo "PATCH DOES NOT APPLY"; exit 1; fi
cp $S/demo.rs cao-lang/tests/seeded_demo.rs
r0=$(cargo test -p cao-lang --offline --test seeded_demo 2>&1 | grep -E "^test result" | tail -1)
git apply $S/patch.diff
r1=$(cargo test -p cao-lang --offline --test seeded_demo 2>&1 | grep -E "^test result" | tail -1)
rm -f cao-lang/tests/seeded_demo.rs
suite=$(cargo test --workspace --no-fail-fast --offline 2>&1 | grep -E "^test result" | awk '{p+=$4; f+=$6} END {print "passed=" p " failed=" f}')
git apply -R $S/patch.diff
echo "demo without change: $r0"
echo "demo with change:    $r1"
echo "suite with change:   $suite"
mkdir -p /verif/seeded/$ID$SUF && cp $S/patch.diff $S/demo.rs $S/meta.json /verif/seeded/$ID$SUF/
cat > /verif/seeded/$ID$SUF/confirmed.txt <<EOT
confirmed by tools/seeded_verify.sh in scratch worktree $D
demo without change: $r0
demo with change:    $r1
existing suite with change: $suite
EOT
