#!/bin/bash
# tools/runall.sh [tier] : run every registered check once, print one line per check
TIER=${1:-quick}
cd /verif
for id in $(python3 -c "import json;print(' '.join(c['property_id'] for c in json.load(open('MANIFEST.json'))['checks']))"); do
  s=$(date +%s.%N); out=$(./check $id $TIER 2>&1); rc=$?; e=$(date +%s.%N)
  printf "%s rc=%d %5.1fs  %s\n" $id $rc $(echo "$e - $s" | bc) "$(echo "$out" | grep -E "^C[0-9]+ (quick|thorough):" | cut -c1-150)"
  echo "$out" | grep -E "^(VIOLATION|INCONCLUSIVE|BUILD-FAILED)" | head -3
done
