#![no_main]
use libfuzzer_sys::fuzz_target;

// coverage-guided search over the same choice-stream decoder the proptest engine uses; the
// semantic oracle of the property is inside the target (a failure that is not a known finding
// aborts, which libFuzzer reports and saves as a crash input)
fuzz_target!(|data: &[u8]| {
    caoverif::fuzz::run_one("C03", data);
});
